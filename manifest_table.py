# Claimed checks and pending (not yet claimed) properties for gen_manifest.py
SIMNOTE = "Trusted base: the harness (scheduler, SimConn TCP model, strict wire codec, generators), Go runtime + testing/synctest fake clock, sonic replaced by encoding/json via the repository's stdjson/gjson build tags. Seeded search: a clean batch is evidence, not proof. Standard transport only (netpoll, TLS, HTTP/2 not simulated)."
CLAIMED = {
 "C01": dict(engine="wire-sim", ref="DESIGN.md 3 C01", technique="deterministic simulation: seeded delivery/fragmentation schedules of generated pipelined request streams against the real server loop, ground-truth oracle + deadlock detection",
   text="Seeded exploration of generated request sequences x fragmentation/pacing schedules on a simulated connection against the real Engine.Serve; oracles: handler count/order/content equal generator ground truth, strict independent response reader, hang = simulator deadlock. Exploration is the right level: the space (streams x schedules x configs) is unbounded and the property is about real code paths, which run unmodified.",
   note=SIMNOTE),
 "C02": dict(engine="wire-sim", ref="DESIGN.md 3 C02", technique="deterministic simulation: the delivery schedule is the variable - reference delivery vs every 2-way split / byte-wise / seeded k-way splits of the same generated stream against the real server, equality oracle + ground truth",
   text="For each generated stream the simulator owns net.Conn.Read and replays the same bytes under every 2-way split (exhaustive per stream up to the tier limit, boundary-focused above), byte-at-a-time and seeded k-way segmentations; per-request observations and server output must equal the reference delivery, which must equal generator ground truth. Exhaustive per stream over split points, sampled over streams.",
   note=SIMNOTE + " Server direction; the client direction of this property is exercised by C11's segmentation of responses."),
 "C13": dict(engine="wire-sim", ref="DESIGN.md 3 C13", technique="deterministic simulation: seeded reader/writer op histories on the real standard.Conn over a simulated socket with fragmentation, EOF/timeout/backpressure/write-error faults, byte-queue reference model stepped per op",
   text="Seeded exploration of operation histories x fragmentation x fault placement on the real linked-buffer connection; a byte-queue model checks every returned byte, Len(), stability of every peeked slice until the next release, error behaviour and flush delivery.",
   note=SIMNOTE),
 "C14": dict(engine="wire-sim", ref="DESIGN.md 3 C14", technique="deterministic simulation: generated consumption programs x body framings x seeded fragmentation against the real streaming server loop with a pipelined probe request; prefix/EOF oracles, blocked read = simulator deadlock, probe-request identity",
   text="Seeded exploration of (streamed request, handler consumption program, delivery schedule) triples on a simulated connection: bytes read must be a prefix of the body, EOF exactly at its end, a read that waits for bytes beyond the body is reported as a simulator deadlock, and the next handler invocation must be exactly the pipelined probe (bodies include bytes that read as chunk framing plus a request if misparsed) or the connection must be closed. Stop points are exhaustive for bodies up to 64 bytes.",
   note=SIMNOTE),
 "C04": dict(engine="wire-sim", ref="DESIGN.md 3 C04", technique="deterministic simulation: generated handler programs x request sequences x seeded request fragmentation and write backpressure against the real server; independent strict response reader + net/http as decoders",
   text="Seeded exploration of handler programs (status x header ops x every body mode incl. streams of known/unknown length with awkward readers and the hijacked chunked writer) over sequences of requests on one simulated connection; every response must decode, with the harness's strict reader and with net/http, to exactly the program's status, header fields, body and trailers, bodiless statuses carry no body, and each response starts where the previous one ended.",
   note=SIMNOTE),
 "C19": dict(engine="wire-sim", ref="DESIGN.md 3 C19", technique="deterministic simulation: generated connection histories with per-request fault outcomes and end-of-connection kinds on the fake clock, recording tracer, two-state automaton + stage-order oracle over the call log",
   text="Seeded exploration of connection histories (1..5 requests x outcome per request incl. injected FIN/RST mid-message, write errors, hijack, panic+recovery x end of connection incl. idle timeout on the simulated clock and the return-to-transport mode) against the real server loop with a recording tracer; Start/Finish must alternate with no orphan Finish, one pair per handled request carrying its data, stage events ordered and closed.",
   note=SIMNOTE),
 "C03": dict(engine="wire-sim", ref="DESIGN.md 3 C03", technique="deterministic simulation with fault injection: structure-aware corruption, truncation, FIN/RST at seeded offsets and seeded fragmentation of valid request streams against the real server; panic capture, strict output reader, rejection-shape oracle",
   text="Seeded exploration of hostile peers: valid request streams feeding every request-side parser (URI, query, cookies, Range/date via the file handler, multipart, trailers) are corrupted, truncated and cut by FIN/RST at tape-chosen points and delivered in tape-chosen fragments; no panic may escape Engine.Serve, all output must decode as complete responses, and a parse-level rejection must be one 4xx with Connection: close followed by a close. Server read path and the wire paths into the public parsers; direct parser fuzzing is not claimed.",
   note=SIMNOTE + " Client response read path not yet covered by this check."),
}
PENDING = {
 "C08": "check not built yet in this session (planned: conc-sim, DESIGN.md 3 C08)",
 "C09": "check not built yet in this session (planned: wire-sim + conc-sim, DESIGN.md 3 C09)",
 "C10": "check not built yet in this session (planned: conc-sim, DESIGN.md 3 C10)",
 "C11": "check not built yet in this session (planned: wire-sim client + e2e, DESIGN.md 3 C11)",
 "C15": "check not built yet in this session (planned: baton-sim, DESIGN.md 3 C15)",
 "C18": "check not built yet in this session (planned: conc-sim, DESIGN.md 3 C18)",
}
