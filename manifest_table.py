# Claimed checks and pending (not yet claimed) properties for gen_manifest.py
SIMNOTE = "Trusted base: the harness (scheduler, SimConn TCP model, strict wire codec, generators), Go runtime + testing/synctest fake clock, sonic replaced by encoding/json via the repository's stdjson/gjson build tags. Seeded search: a clean batch is evidence, not proof. Standard transport only (netpoll, TLS, HTTP/2 not simulated)."
CLAIMED = {
 "C01": dict(engine="wire-sim", ref="DESIGN.md 3 C01", technique="deterministic simulation: seeded delivery/fragmentation schedules of generated pipelined request streams against the real server loop, ground-truth oracle + deadlock detection",
   text="Seeded exploration of generated request sequences x fragmentation/pacing schedules on a simulated connection against the real Engine.Serve; oracles: handler count/order/content equal generator ground truth, strict independent response reader, hang = simulator deadlock. Exploration is the right level: the space (streams x schedules x configs) is unbounded and the property is about real code paths, which run unmodified.",
   note=SIMNOTE),
}
PENDING = {
 "C02": "check not built yet in this session (planned: wire-sim, DESIGN.md 3 C02)",
 "C03": "check not built yet in this session (planned: wire-sim, DESIGN.md 3 C03)",
 "C04": "check not built yet in this session (planned: wire-sim, DESIGN.md 3 C04)",
 "C08": "check not built yet in this session (planned: conc-sim, DESIGN.md 3 C08)",
 "C09": "check not built yet in this session (planned: wire-sim + conc-sim, DESIGN.md 3 C09)",
 "C10": "check not built yet in this session (planned: conc-sim, DESIGN.md 3 C10)",
 "C11": "check not built yet in this session (planned: wire-sim client + e2e, DESIGN.md 3 C11)",
 "C13": "check not built yet in this session (planned: wire-sim conn only, DESIGN.md 3 C13)",
 "C14": "check not built yet in this session (planned: wire-sim, DESIGN.md 3 C14)",
 "C15": "check not built yet in this session (planned: baton-sim, DESIGN.md 3 C15)",
 "C18": "check not built yet in this session (planned: conc-sim, DESIGN.md 3 C18)",
 "C19": "check not built yet in this session (planned: wire-sim, DESIGN.md 3 C19)",
}
