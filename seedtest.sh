#!/bin/bash
# usage: seedtest.sh <patch.diff> <Cxx> [Cyy ...] : apply a seeded change to /repo, run the quick checks, revert.
P=$1; shift
cd /repo && git apply --check "$P" || { echo "PATCH DOES NOT APPLY: $P"; exit 3; }
git apply "$P"
for id in "$@"; do
  out=$(cd /verif && VERIF_BUDGET_S=${VERIF_BUDGET_S:-25} timeout 1200 ./check $id quick 2>&1)
  rc=$?
  echo "== $(basename $(dirname $P))/$(basename $P) vs $id: exit $rc"
  echo "$out" | grep -E "VIOLATION|oracle=|INFRA|KNOWN" | head -6 | cut -c1-400
done
cd /repo && git checkout -- . && git status --short | head -3
