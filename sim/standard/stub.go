// Package standard holds a listener-less stub transporter. The package is
// named "standard" on purpose: hertz derives the transporter name from the
// type's package name and gives the standard transporter in-loop idle handling.
package standard

import (
	"context"

	"github.com/cloudwego/hertz/pkg/common/config"
	"github.com/cloudwego/hertz/pkg/network"
)

type transport struct{}

func (t *transport) Close() error                               { return nil }
func (t *transport) Shutdown(ctx context.Context) error         { return nil }
func (t *transport) ListenAndServe(onData network.OnData) error { return nil }

// NewStub is a config.Options.TransporterNewer.
func NewStub(*config.Options) network.Transporter { return &transport{} }
