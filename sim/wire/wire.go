// Package wire is the harness's own, deliberately boring HTTP/1.x encoder and
// a strict RFC 7230 reader, independent of hertz, used as ground truth.
package wire

import (
	"bytes"
	"errors"
	"fmt"
	"strconv"
	"strings"
)

type Header struct {
	K, V string
	// Raw, when non-empty, is emitted verbatim instead of "K: V\r\n" (used for
	// obs-fold and odd spacing); K/V then hold the *expected* parse.
	Raw string
}

// Msg is a structured request or response.
type Msg struct {
	// request
	Method, Target string
	// response
	Status int
	Reason string

	Proto   string // "HTTP/1.1" / "HTTP/1.0"
	Headers []Header
	Body    []byte

	Chunked    bool
	ChunkSizes []int    // split of Body into chunks (sum == len(Body)); nil => one chunk (or none if empty)
	ChunkExts  []string // per chunk extension (may be shorter)
	HexUpper   bool
	HexZeros   int // leading zeros on chunk-size lines
	Trailers   []Header
	// NoFraming: encoder adds neither Content-Length nor Transfer-Encoding
	// (bodiless requests, close-delimited responses).
	NoFraming bool
	// CLName/TEName: the literal header names used for the framing header
	CLName, TEName string
	// FramingAt: index in Headers before which the framing header is emitted (-1/over => at end)
	FramingAt int
	// CloseDelimited (parsed responses only)
	CloseDelimited bool
}

func (m *Msg) Get(k string) (string, bool) {
	for _, h := range m.Headers {
		if EqFold(h.K, k) {
			return h.V, true
		}
	}
	return "", false
}

func (m *Msg) GetAll(k string) []string {
	var out []string
	for _, h := range m.Headers {
		if EqFold(h.K, k) {
			out = append(out, h.V)
		}
	}
	return out
}

func appendHeader(b []byte, h Header) []byte {
	if h.Raw != "" {
		return append(b, h.Raw...)
	}
	b = append(b, h.K...)
	b = append(b, ':', ' ')
	b = append(b, h.V...)
	return append(b, '\r', '\n')
}

// Encode serialises the message. Offsets of structural boundaries (end of
// start line, end of each header line, end of header block, chunk edges, end
// of message) are returned relative to the start of the message.
func (m *Msg) Encode() (out []byte, bounds []int) {
	mark := func() { bounds = append(bounds, len(out)) }
	proto := m.Proto
	if proto == "" {
		proto = "HTTP/1.1"
	}
	if m.Method != "" {
		out = append(out, m.Method...)
		out = append(out, ' ')
		out = append(out, m.Target...)
		out = append(out, ' ')
		out = append(out, proto...)
	} else {
		out = append(out, proto...)
		out = append(out, ' ')
		out = append(out, strconv.Itoa(m.Status)...)
		out = append(out, ' ')
		out = append(out, m.Reason...)
	}
	out = append(out, '\r', '\n')
	mark()
	framing := func() {
		if m.NoFraming {
			return
		}
		if m.Chunked {
			n := m.TEName
			if n == "" {
				n = "Transfer-Encoding"
			}
			out = appendHeader(out, Header{K: n, V: "chunked"})
		} else {
			n := m.CLName
			if n == "" {
				n = "Content-Length"
			}
			out = appendHeader(out, Header{K: n, V: strconv.Itoa(len(m.Body))})
		}
		mark()
	}
	done := false
	for i, h := range m.Headers {
		if i == m.FramingAt && !done {
			framing()
			done = true
		}
		out = appendHeader(out, h)
		mark()
	}
	if !done {
		framing()
	}
	out = append(out, '\r', '\n')
	mark()
	if m.Chunked {
		sizes := m.ChunkSizes
		if sizes == nil && len(m.Body) > 0 {
			sizes = []int{len(m.Body)}
		}
		off := 0
		for i, sz := range sizes {
			hx := strconv.FormatInt(int64(sz), 16)
			if m.HexUpper {
				hx = strings.ToUpper(hx)
			}
			out = append(out, strings.Repeat("0", m.HexZeros)...)
			out = append(out, hx...)
			if i < len(m.ChunkExts) && m.ChunkExts[i] != "" {
				out = append(out, ';')
				out = append(out, m.ChunkExts[i]...)
			}
			out = append(out, '\r', '\n')
			mark()
			out = append(out, m.Body[off:off+sz]...)
			off += sz
			mark()
			out = append(out, '\r', '\n')
			mark()
		}
		out = append(out, '0', '\r', '\n')
		mark()
		for _, t := range m.Trailers {
			out = appendHeader(out, t)
			mark()
		}
		out = append(out, '\r', '\n')
		mark()
	} else {
		out = append(out, m.Body...)
		if len(m.Body) > 0 {
			mark()
		}
	}
	return
}

var (
	ErrIncomplete = errors.New("wire: incomplete message")
)

type ParseError struct {
	Off int
	Msg string
}

func (e *ParseError) Error() string {
	return fmt.Sprintf("wire: malformed at offset %d: %s", e.Off, e.Msg)
}

func perr(off int, f string, a ...interface{}) error {
	return &ParseError{Off: off, Msg: fmt.Sprintf(f, a...)}
}

func isTChar(c byte) bool {
	switch {
	case c >= '0' && c <= '9', c >= 'a' && c <= 'z', c >= 'A' && c <= 'Z':
		return true
	}
	return strings.IndexByte("!#$%&'*+-.^_`|~", c) >= 0
}

func isToken(s string) bool {
	if s == "" {
		return false
	}
	for i := 0; i < len(s); i++ {
		if !isTChar(s[i]) {
			return false
		}
	}
	return true
}

// line returns the line at b[off:] without CRLF and the offset after it.
// Strict: line must end in CRLF; a bare LF or a CR not followed by LF is an error.
func line(b []byte, off int) (string, int, error) {
	i := bytes.IndexByte(b[off:], '\n')
	if i < 0 {
		if j := bytes.IndexByte(b[off:], '\r'); j >= 0 && off+j+1 < len(b) {
			return "", 0, perr(off+j, "CR not followed by LF")
		}
		return "", 0, ErrIncomplete
	}
	if i == 0 || b[off+i-1] != '\r' {
		return "", 0, perr(off+i, "bare LF")
	}
	l := string(b[off : off+i-1])
	if strings.IndexByte(l, '\r') >= 0 {
		return "", 0, perr(off, "CR inside line")
	}
	return l, off + i + 1, nil
}

func parseHeaders(b []byte, off int) ([]Header, int, error) {
	var hs []Header
	for {
		l, n, err := line(b, off)
		if err != nil {
			return nil, 0, err
		}
		if l == "" {
			return hs, n, nil
		}
		if l[0] == ' ' || l[0] == '\t' {
			return nil, 0, perr(off, "obs-fold / leading whitespace in header line %q", l)
		}
		c := strings.IndexByte(l, ':')
		if c < 0 {
			return nil, 0, perr(off, "header line without colon %q", l)
		}
		k := l[:c]
		if !isToken(k) {
			return nil, 0, perr(off, "header name is not a token %q", k)
		}
		v := strings.Trim(l[c+1:], " \t")
		for i := 0; i < len(v); i++ {
			if v[i] < 0x20 && v[i] != '\t' || v[i] == 0x7f {
				return nil, 0, perr(off, "control byte 0x%02x in value of %q", v[i], k)
			}
		}
		hs = append(hs, Header{K: k, V: v})
		off = n
	}
}

// framing returns (contentLength, chunked, error). contentLength -1: none.
func framing(hs []Header, off int) (int, bool, error) {
	cl := -1
	chunked := false
	for _, h := range hs {
		if EqFold(h.K, "Content-Length") {
			if h.V == "" {
				return 0, false, perr(off, "empty Content-Length")
			}
			for i := 0; i < len(h.V); i++ {
				if h.V[i] < '0' || h.V[i] > '9' {
					return 0, false, perr(off, "non-numeric Content-Length %q", h.V)
				}
			}
			n, err := strconv.Atoi(h.V)
			if err != nil {
				return 0, false, perr(off, "bad Content-Length %q", h.V)
			}
			if cl >= 0 && cl != n {
				return 0, false, perr(off, "conflicting Content-Length")
			}
			cl = n
		}
		if EqFold(h.K, "Transfer-Encoding") {
			if !EqFold(h.V, "chunked") {
				return 0, false, perr(off, "unsupported Transfer-Encoding %q", h.V)
			}
			chunked = true
		}
	}
	if chunked && cl >= 0 {
		return 0, false, perr(off, "both Content-Length and Transfer-Encoding")
	}
	return cl, chunked, nil
}

func parseChunked(b []byte, off int, m *Msg) (int, error) {
	for {
		l, n, err := line(b, off)
		if err != nil {
			return 0, err
		}
		sz := l
		ext := ""
		if i := strings.IndexByte(l, ';'); i >= 0 {
			sz, ext = l[:i], l[i+1:]
		}
		if sz == "" || len(sz) > 16 {
			return 0, perr(off, "bad chunk-size line %q", l)
		}
		for i := 0; i < len(sz); i++ {
			c := sz[i]
			if !(c >= '0' && c <= '9' || c >= 'a' && c <= 'f' || c >= 'A' && c <= 'F') {
				return 0, perr(off, "bad chunk-size line %q", l)
			}
		}
		v, err := strconv.ParseInt(sz, 16, 62)
		if err != nil {
			return 0, perr(off, "bad chunk-size %q", sz)
		}
		off = n
		if v == 0 {
			tr, n, err := parseHeaders(b, off)
			if err != nil {
				return 0, err
			}
			m.Trailers = tr
			return n, nil
		}
		if len(b)-off < int(v)+2 {
			return 0, ErrIncomplete
		}
		m.Body = append(m.Body, b[off:off+int(v)]...)
		m.ChunkSizes = append(m.ChunkSizes, int(v))
		m.ChunkExts = append(m.ChunkExts, ext)
		off += int(v)
		if b[off] != '\r' || b[off+1] != '\n' {
			return 0, perr(off, "chunk data not followed by CRLF")
		}
		off += 2
	}
}

// ParseResponse strictly parses one response at b[0:]. method is the request
// method it answers. eof: the sender has closed (needed for close-delimited
// bodies). Returns the message and the number of bytes consumed.
func ParseResponse(b []byte, method string, eof bool) (*Msg, int, error) {
	l, off, err := line(b, 0)
	if err != nil {
		return nil, 0, err
	}
	m := &Msg{}
	// HTTP/1.x SP 3DIGIT SP reason
	if len(l) < 13 || l[:7] != "HTTP/1." || (l[7] != '0' && l[7] != '1') || l[8] != ' ' || l[12] != ' ' {
		return nil, 0, perr(0, "bad status line %q", l)
	}
	for i := 9; i < 12; i++ {
		if l[i] < '0' || l[i] > '9' {
			return nil, 0, perr(0, "bad status code in %q", l)
		}
	}
	m.Proto = l[:8]
	st, _ := strconv.Atoi(l[9:12])
	if st < 100 {
		return nil, 0, perr(0, "bad status code in %q", l)
	}
	m.Status = st
	m.Reason = l[13:]
	hs, off, err := parseHeaders(b, off)
	if err != nil {
		return nil, 0, err
	}
	m.Headers = hs
	cl, chunked, err := framing(hs, off)
	if err != nil {
		return nil, 0, err
	}
	bodiless := method == "HEAD" || st/100 == 1 || st == 204 || st == 304
	if bodiless {
		m.NoFraming = cl < 0 && !chunked
		return m, off, nil
	}
	switch {
	case chunked:
		m.Chunked = true
		n, err := parseChunked(b, off, m)
		if err != nil {
			return nil, 0, err
		}
		return m, n, nil
	case cl >= 0:
		if len(b)-off < cl {
			return nil, 0, ErrIncomplete
		}
		m.Body = append([]byte(nil), b[off:off+cl]...)
		return m, off + cl, nil
	default:
		if !eof {
			return nil, 0, ErrIncomplete
		}
		m.CloseDelimited = true
		m.NoFraming = true
		m.Body = append([]byte(nil), b[off:]...)
		return m, len(b), nil
	}
}

// ParseRequest strictly parses one request at b[0:].
func ParseRequest(b []byte) (*Msg, int, error) {
	l, off, err := line(b, 0)
	if err != nil {
		return nil, 0, err
	}
	parts := strings.Split(l, " ")
	if len(parts) != 3 {
		return nil, 0, perr(0, "bad request line %q", l)
	}
	m := &Msg{Method: parts[0], Target: parts[1], Proto: parts[2]}
	if !isToken(m.Method) {
		return nil, 0, perr(0, "method is not a token %q", m.Method)
	}
	if m.Proto != "HTTP/1.1" && m.Proto != "HTTP/1.0" {
		return nil, 0, perr(0, "bad protocol %q", m.Proto)
	}
	if m.Target == "" {
		return nil, 0, perr(0, "empty target")
	}
	for i := 0; i < len(m.Target); i++ {
		if m.Target[i] <= 0x20 || m.Target[i] == 0x7f {
			return nil, 0, perr(0, "control/space byte in target %q", m.Target)
		}
	}
	hs, off, err := parseHeaders(b, off)
	if err != nil {
		return nil, 0, err
	}
	m.Headers = hs
	cl, chunked, err := framing(hs, off)
	if err != nil {
		return nil, 0, err
	}
	switch {
	case chunked:
		m.Chunked = true
		n, err := parseChunked(b, off, m)
		if err != nil {
			return nil, 0, err
		}
		return m, n, nil
	case cl >= 0:
		if len(b)-off < cl {
			return nil, 0, ErrIncomplete
		}
		m.Body = append([]byte(nil), b[off:off+cl]...)
		return m, off + cl, nil
	}
	m.NoFraming = true
	return m, off, nil
}

// HeaderString renders a header list for diagnostics/comparison.
func HeaderString(hs []Header) string {
	var sb strings.Builder
	for _, h := range hs {
		sb.WriteString(h.K)
		sb.WriteString(": ")
		sb.WriteString(h.V)
		sb.WriteString("\n")
	}
	return sb.String()
}

// Trunc shortens long strings for messages.
func Trunc(s string, n int) string {
	if len(s) <= n {
		return s
	}
	return s[:n] + fmt.Sprintf("...(%d bytes)", len(s))
}

// EqFold compares two strings ignoring the case of ASCII letters only (strings.EqualFold also folds
// U+017F to 's' and U+212A to 'k', which no HTTP parser may do).
func EqFold(a, b string) bool {
	if len(a) != len(b) {
		return false
	}
	for i := 0; i < len(a); i++ {
		x, y := a[i], b[i]
		if x >= 'A' && x <= 'Z' {
			x += 32
		}
		if y >= 'A' && y <= 'Z' {
			y += 32
		}
		if x != y {
			return false
		}
	}
	return true
}

// LowerASCII lower-cases ASCII letters only.
func LowerASCII(s string) string {
	b := []byte(s)
	for i := range b {
		if b[i] >= 'A' && b[i] <= 'Z' {
			b[i] += 32
		}
	}
	return string(b)
}
