// Package pollstub holds a listener-less stub transporter whose name is NOT
// "standard": hertz then keeps IdleTimeout == 0 and the HTTP/1 server loop
// returns to the transport after every request (the netpoll-style idle handling).
package pollstub

import (
	"context"

	"github.com/cloudwego/hertz/pkg/common/config"
	"github.com/cloudwego/hertz/pkg/network"
)

type transport struct{}

func (t *transport) Close() error                               { return nil }
func (t *transport) Shutdown(ctx context.Context) error         { return nil }
func (t *transport) ListenAndServe(onData network.OnData) error { return nil }

// NewStub is a config.Options.TransporterNewer.
func NewStub(*config.Options) network.Transporter { return &transport{} }
