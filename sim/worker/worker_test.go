// Package worker is the simulation worker: one synctest bubble per process,
// many episodes per bubble. It is a test binary because synctest.Test needs a *testing.T.
package worker

import (
	"encoding/json"
	"fmt"
	"os"
	"runtime"
	"runtime/debug"
	"runtime/pprof"
	"sort"
	"strconv"
	"strings"
	"syscall"
	"testing"
	"testing/synctest"
	"time"

	"verifsim/core"
	"verifsim/props"
)

// realNow reads the real clock (package time is faked inside the bubble).
// Used only to stop a batch on its wall-clock budget, never inside an episode.
func realNow() float64 {
	var tv syscall.Timeval
	syscall.Gettimeofday(&tv)
	return float64(tv.Sec) + float64(tv.Usec)/1e6
}

type ViolationRec struct {
	Prop    string            `json:"property"`
	Oracle  string            `json:"oracle"`
	Msg     string            `json:"message"`
	Seed    uint64            `json:"episode_seed"`
	Index   uint64            `json:"episode_index"`
	Tape    []uint32          `json:"tape"`
	Params  map[string]string `json:"params,omitempty"`
	LogHash string            `json:"log_hash"`
	Trace   []string          `json:"trace,omitempty"`
	Tags    string            `json:"build_tags,omitempty"`
	// Prefix: seeds of the episodes that ran in the same process since the last
	// forced GC before this one (their effect on object pools is part of the run)
	Prefix  []uint64 `json:"prefix_episode_seeds,omitempty"`
	Shrunk  bool     `json:"shrunk,omitempty"`
	OrigLen int      `json:"orig_tape_len,omitempty"`
	// History replay: the violation depends on what earlier episodes of the same worker
	// process left behind (object pools refilled by finalizers, buffers freed late). The
	// episodes HistFrom..Index-1 of worker (WSeed, started at WFrom, GC every GCEvery
	// episodes) are re-run from their seeds before the recorded one.
	WSeed    uint64  `json:"worker_seed,omitempty"`
	WFrom    uint64  `json:"worker_from,omitempty"`
	GCEvery  uint64  `json:"gc_every,omitempty"`
	HistFrom *uint64 `json:"history_from,omitempty"`
}

type Result struct {
	Prop       string              `json:"property"`
	WorkerSeed uint64              `json:"worker_seed"`
	From       uint64              `json:"from"`
	Episodes   int                 `json:"episodes"`
	Nontrivial int                 `json:"nontrivial"`
	Steps      int                 `json:"steps"`
	SimTimeNs  int64               `json:"sim_time_ns"`
	Faults     map[string]int      `json:"faults"`
	Probes     map[string]int      `json:"probes"`
	Sigs       []string            `json:"sigs"`
	States     []string            `json:"states,omitempty"`
	Violations []ViolationRec      `json:"violations"`
	Infra      []string            `json:"infra"`
	Samples    []interface{}       `json:"samples"`
	Hashes     []string            `json:"hashes,omitempty"` // per-episode log hashes (selftest)
	Logs       map[string][]string `json:"logs,omitempty"`
	Leak       bool                `json:"leak"`
	WallS      float64             `json:"wall_s"`
}

func envU64(k string, def uint64) uint64 {
	if v := os.Getenv(k); v != "" {
		n, err := strconv.ParseUint(v, 10, 64)
		if err == nil {
			return n
		}
	}
	return def
}

// runEpisode executes one episode inside the bubble and drains it.
func runEpisode(prop string, seed uint64, tape *core.Tape, params map[string]string, keepLog bool) (ep *core.Episode, leak bool) {
	fn := props.Registry[prop]
	if fn == nil {
		fmt.Fprintf(os.Stderr, "unknown property %q\n", prop)
		os.Exit(2)
	}
	ep = core.NewEpisode(prop, seed, tape)
	ep.KeepLog = keepLog
	for k, v := range params {
		ep.Params[k] = v
	}
	func() {
		defer func() {
			if r := recover(); r != nil {
				stk := string(debug.Stack())
				if props.PanicInHertz(stk) {
					ep.Fail(prop+".panic", "panic in hertz on the harness goroutine: %v", r)
				} else {
					ep.Infra = fmt.Sprintf("harness panic: %v\n%s", r, stk)
				}
			}
		}()
		fn(ep)
	}()
	leak = !ep.S.Drain()
	return
}

func writeJSON(path string, v interface{}) {
	b, err := json.Marshal(v)
	if err != nil {
		fmt.Fprintln(os.Stderr, "marshal:", err)
		os.Exit(2)
	}
	if err := os.WriteFile(path+".tmp", b, 0o644); err != nil {
		fmt.Fprintln(os.Stderr, "write:", err)
		os.Exit(2)
	}
	os.Rename(path+".tmp", path)
}

func gcBetween() { core.ForceGC() }

func TestSim(t *testing.T) {
	mode := os.Getenv("VSIM_MODE")
	if mode == "" {
		t.Skip("VSIM_MODE not set")
	}
	runtime.GOMAXPROCS(int(envU64("VSIM_PROCS", 1)))
	debug.SetGCPercent(-1)
	if pf := os.Getenv("VSIM_CPUPROFILE"); pf != "" {
		f, _ := os.Create(pf)
		pprof.StartCPUProfile(f)
		defer pprof.StopCPUProfile()
	}
	go stuckMonitor() // started outside the bubble: real time
	synctest.Test(t, func(t *testing.T) {
		switch mode {
		case "explore":
			explore()
		case "replay":
			replay()
		case "shrink":
			shrink()
		default:
			fmt.Fprintln(os.Stderr, "bad VSIM_MODE")
			os.Exit(2)
		}
		if os.Getenv("VSIM_CPUPROFILE") != "" {
			pprof.StopCPUProfile()
		}
		os.Exit(0)
	})
}

// stuckMonitor: the scheduler made no step for 20 s of real time. The usual reason is a goroutine of
// the system under test blocked on a sync.Mutex / RWMutex whose holder waits for simulated time or for
// the scheduler - that is not a quiescent state, so the bubble (and the fake clock) cannot advance. The
// blocked lock acquisition is reported (the driver turns it into a violation record); anything else is
// left to the driver's watchdog.
func stuckMonitor() {
	last, same := int64(-1), 0
	for {
		time.Sleep(2 * time.Second)
		p := core.Progress.Load()
		if p == last && p > 0 {
			same++
		} else {
			same = 0
		}
		last = p
		if same < 10 {
			continue
		}
		buf := make([]byte, 4<<20)
		buf = buf[:runtime.Stack(buf, true)]
		site := ""
		for _, g := range strings.Split(string(buf), "\n\n") {
			if !strings.Contains(g, "synctest bubble") || !(strings.Contains(g, "sync.(*Mutex).Lock") || strings.Contains(g, "sync.(*RWMutex).")) {
				continue
			}
			for _, l := range strings.Split(g, "\n") {
				if strings.HasPrefix(l, "github.com/cloudwego/hertz/") {
					site = l
					if i := strings.LastIndexByte(l, '('); i > 0 {
						site = l[:i] // drop the argument list, keep receivers like (*Engine)
					}
					if i := strings.LastIndexByte(site, '/'); i >= 0 {
						site = site[i+1:]
					}
					break
				}
			}
			if site != "" {
				break
			}
		}
		if out := os.Getenv("VSIM_STUCK"); out != "" && site != "" {
			os.WriteFile(out, []byte(site), 0o644)
		}
		fmt.Fprintf(os.Stderr, "STUCK: no scheduler step for 20s of real time; blocked lock acquisition in hertz: %q\n", site)
		os.Exit(3)
	}
}

func explore() {
	prop := os.Getenv("VSIM_PROP")
	wseed := envU64("VSIM_SEED", 1)
	from := envU64("VSIM_FROM", 0)
	count := envU64("VSIM_COUNT", 100)
	budget := float64(envU64("VSIM_BUDGET_MS", 0)) / 1000
	out := os.Getenv("VSIM_OUT")
	keepHashes := os.Getenv("VSIM_HASHES") != ""
	keepLogs := os.Getenv("VSIM_LOGS") != ""
	maxViol := int(envU64("VSIM_MAXVIOL", 4))
	cur := os.Getenv("VSIM_CUR")
	params := map[string]string{}
	if p := os.Getenv("VSIM_PARAMS"); p != "" {
		json.Unmarshal([]byte(p), &params)
	}
	res := &Result{Prop: prop, WorkerSeed: wseed, From: from, Faults: map[string]int{}, Probes: map[string]int{}}
	if keepLogs {
		res.Logs = map[string][]string{}
	}
	sigs := map[uint64]bool{}
	states := map[string]bool{}
	seenOracle := map[string]int{}
	t0 := realNow()
	leakedTotal := 0
	gcEvery := envU64("VSIM_GC_EVERY", 1)
	var window []uint64
	for i := uint64(0); i < count; i++ {
		if budget > 0 && realNow()-t0 > budget {
			break
		}
		idx := from + i
		seed := core.SplitMix64(wseed, idx)
		if cur != "" {
			os.WriteFile(cur, []byte(fmt.Sprintf(`{"property":%q,"episode_seed":%d,"episode_index":%d}`, prop, seed, idx)), 0o644)
		}
		if i%gcEvery == 0 {
			gcBetween()
			window = window[:0]
		}
		if os.Getenv("VSIM_MEMSTATS") != "" && i%100 == 0 {
			var ms runtime.MemStats
			runtime.ReadMemStats(&ms)
			fmt.Fprintf(os.Stderr, "episode %d heap=%dKB objects=%d goroutines=%d\n", i, ms.HeapAlloc/1024, ms.HeapObjects, runtime.NumGoroutine())
		}
		ep, leak := runEpisode(prop, seed, core.NewTape(seed), params, keepLogs)
		res.Episodes++
		res.Steps += ep.S.Steps
		res.SimTimeNs += int64(ep.SimTime())
		for k, v := range ep.Faults {
			res.Faults[k] += v
		}
		for k, v := range ep.Probes {
			res.Probes[k] += v
		}
		for _, s := range ep.States {
			states[s] = true
		}
		if keepHashes {
			res.Hashes = append(res.Hashes, fmt.Sprintf("%d:%016x", idx, ep.LogHash()))
		}
		if keepLogs {
			res.Logs[fmt.Sprint(idx)] = ep.Log()
		}
		if ep.Infra != "" {
			res.Infra = append(res.Infra, fmt.Sprintf("episode %d seed %d: %s", idx, seed, ep.Infra))
		} else if ep.Viol != nil {
			if seenOracle[ep.Viol.Oracle] < 2 && len(res.Violations) < maxViol {
				seenOracle[ep.Viol.Oracle]++
				res.Violations = append(res.Violations, ViolationRec{Prop: prop, Oracle: ep.Viol.Oracle, Msg: ep.Viol.Msg, Seed: seed, Index: idx,
					Tape: ep.Tape.Recorded(), Params: params, LogHash: fmt.Sprintf("%016x", ep.LogHash()), Prefix: append([]uint64(nil), window...),
					WSeed: wseed, WFrom: from, GCEvery: gcEvery})
			} else {
				seenOracle[ep.Viol.Oracle]++
			}
		} else if ep.Nontrivial {
			res.Nontrivial++
			sigs[ep.SigHash()] = true
			if len(res.Samples) < 3 && ep.Sample != nil {
				res.Samples = append(res.Samples, ep.Sample)
			}
		}
		leakedTotal += ep.LeakedGoroutines
		if leakedTotal > 150 && !leak {
			// hertz goroutines that never end (one FS cache cleaner per FS object): recycle the process
			res.Leak = true
			break
		}
		window = append(window, seed)
		if leak {
			res.Leak = true
			res.Infra = append(res.Infra, fmt.Sprintf("episode %d seed %d: goroutines could not be drained; worker recycled", idx, seed))
			break
		}
	}
	for k, n := range seenOracle {
		res.Probes["violations:"+k] = n
	}
	for s := range sigs {
		res.Sigs = append(res.Sigs, fmt.Sprintf("%016x", s))
	}
	sort.Strings(res.Sigs)
	for s := range states {
		res.States = append(res.States, s)
	}
	sort.Strings(res.States)
	res.WallS = realNow() - t0
	writeJSON(out, res)
}

// replay runs one recorded episode and prints what happened.
func replay() {
	var v ViolationRec
	b, err := os.ReadFile(os.Getenv("VSIM_IN"))
	if err != nil {
		fmt.Fprintln(os.Stderr, err)
		os.Exit(2)
	}
	if err := json.Unmarshal(b, &v); err != nil {
		fmt.Fprintln(os.Stderr, err)
		os.Exit(2)
	}
	if v.HistFrom != nil {
		ge := v.GCEvery
		if ge == 0 {
			ge = 1
		}
		for idx := *v.HistFrom; idx < v.Index; idx++ {
			if (idx-v.WFrom)%ge == 0 {
				gcBetween()
			}
			ps := core.SplitMix64(v.WSeed, idx)
			runEpisode(v.Prop, ps, core.NewTape(ps), v.Params, false)
		}
		if (v.Index-v.WFrom)%ge == 0 {
			gcBetween()
		}
	} else {
		gcBetween()
		for _, ps := range v.Prefix {
			runEpisode(v.Prop, ps, core.NewTape(ps), v.Params, false)
		}
	}
	tape := core.ReplayTape(v.Tape)
	if v.Tape == nil {
		tape = core.NewTape(v.Seed) // crash replay: only the seed is known
	}
	ep, _ := runEpisode(v.Prop, v.Seed, tape, v.Params, true)
	out := ViolationRec{Prop: v.Prop, Seed: v.Seed, Index: v.Index, Tape: ep.Tape.Recorded(), Params: v.Params, LogHash: fmt.Sprintf("%016x", ep.LogHash()), Trace: ep.Log(), Prefix: v.Prefix,
		WSeed: v.WSeed, WFrom: v.WFrom, GCEvery: v.GCEvery, HistFrom: v.HistFrom}
	if ep.Viol != nil {
		out.Oracle, out.Msg = ep.Viol.Oracle, ep.Viol.Msg
	}
	if ep.Infra != "" {
		out.Oracle, out.Msg = "INFRA", ep.Infra
	}
	writeJSON(os.Getenv("VSIM_OUT"), out)
}

// shrink minimises a violating tape while the same oracle id fires.
func shrink() {
	var v ViolationRec
	b, err := os.ReadFile(os.Getenv("VSIM_IN"))
	if err != nil {
		fmt.Fprintln(os.Stderr, err)
		os.Exit(2)
	}
	json.Unmarshal(b, &v)
	budget := int(envU64("VSIM_SHRINK_RUNS", 400))
	runs := 0
	try := func(tape []uint32) ([]uint32, bool) {
		if runs >= budget {
			return nil, false
		}
		runs++
		gcBetween()
		for _, ps := range v.Prefix {
			runEpisode(v.Prop, ps, core.NewTape(ps), v.Params, false)
		}
		ep, leak := runEpisode(v.Prop, v.Seed, core.ReplayTape(tape), v.Params, false)
		if leak {
			runs = budget
		}
		if ep.Infra == "" && ep.Viol != nil && ep.Viol.Oracle == v.Oracle {
			return ep.Tape.Recorded(), true
		}
		return nil, false
	}
	best := append([]uint32(nil), v.Tape...)
	if t, ok := try(best); ok {
		best = t
	} else {
		// not reproducible in this process: leave as is
		v.Shrunk = false
		writeJSON(os.Getenv("VSIM_OUT"), v)
		return
	}
	orig := len(best)
	improved := true
	for improved && runs < budget {
		improved = false
		// 1. truncate suffix (binary search on length)
		lo, hi := 0, len(best)
		for lo < hi && runs < budget {
			mid := (lo + hi) / 2
			if t, ok := try(best[:mid]); ok {
				best = t
				hi = len(best)
				if hi > mid {
					hi = mid
				}
				improved = true
			} else {
				lo = mid + 1
			}
		}
		// 2. delete blocks
		for size := len(best) / 2; size >= 1 && runs < budget; size /= 2 {
			for i := 0; i+size <= len(best) && runs < budget; {
				cand := append(append([]uint32(nil), best[:i]...), best[i+size:]...)
				if t, ok := try(cand); ok && len(t) < len(best) {
					best = t
					improved = true
				} else {
					i += size
				}
			}
		}
		// 3. zero, then halve values
		for i := 0; i < len(best) && runs < budget; i++ {
			if best[i] == 0 {
				continue
			}
			cand := append([]uint32(nil), best...)
			cand[i] = 0
			if t, ok := try(cand); ok && len(t) <= len(best) {
				best = t
				improved = true
				continue
			}
			if best[i] > 1 {
				cand = append([]uint32(nil), best...)
				cand[i] = best[i] / 2
				if t, ok := try(cand); ok && len(t) <= len(best) {
					best = t
					improved = true
				}
			}
		}
	}
	v.Tape = best
	v.Shrunk = true
	v.OrigLen = orig
	writeJSON(os.Getenv("VSIM_OUT"), v)
}
