package core

import (
	"bytes"
	"fmt"
	"os"
	"reflect"
	"runtime"
	"runtime/debug"
	"sort"
	"strconv"
	"strings"
	"sync"
	"sync/atomic"
	"testing/synctest"
	"time"
)

// Violation is a property violation found by an oracle.
type Violation struct {
	Oracle string `json:"oracle"`
	Msg    string `json:"msg"`
}

// Episode is one simulated execution: a pure function of (code, prop, params, tape).
type Episode struct {
	Prop   string
	Seed   uint64
	Tape   *Tape
	S      *Sched
	Params map[string]string // replay/neutralisation switches; empty in exploration

	mu      sync.Mutex
	frozen  bool // set when the episode proper is over (teardown is not part of the recorded run)
	log     []string
	KeepLog bool
	logHash uint64
	sigHash uint64

	Faults     map[string]int
	Probes     map[string]int
	Viol       *Violation
	Nontrivial bool
	Infra      string // non-empty: infrastructure trouble (step cap, leak), never a violation
	Sample     interface{}
	// LeakedGoroutines: goroutines hertz started in this episode that never end (FS cache cleaner)
	LeakedGoroutines int
	States           []string // distinct abstract states visited (property specific)
	t0               time.Time
	cleanups         []func()
	afterDrain       []func()
}

func NewEpisode(prop string, seed uint64, tape *Tape) *Episode {
	ep := &Episode{Prop: prop, Seed: seed, Tape: tape, Faults: map[string]int{}, Probes: map[string]int{}, Params: map[string]string{}}
	ep.logHash = 1469598103934665603
	ep.sigHash = 1469598103934665603
	ep.S = newSched(ep)
	ep.t0 = time.Now()
	return ep
}

func fnvAdd(h uint64, s string) uint64 {
	for i := 0; i < len(s); i++ {
		h ^= uint64(s[i])
		h *= 1099511628211
	}
	h ^= 0xff
	h *= 1099511628211
	return h
}

// Logf appends to the event log. Never draws from the tape, never reads a real clock.
func (e *Episode) Logf(format string, a ...interface{}) {
	s := fmt.Sprintf(format, a...)
	e.mu.Lock()
	if e.frozen {
		e.mu.Unlock()
		return
	}
	e.logHash = fnvAdd(e.logHash, s)
	if e.KeepLog {
		e.log = append(e.log, s)
	}
	e.mu.Unlock()
}

// Sig feeds the abstract episode signature (event kind + site + fault kind, sizes bucketed).
func (e *Episode) Sig(s string) {
	e.mu.Lock()
	e.sigHash = fnvAdd(e.sigHash, s)
	e.mu.Unlock()
}

func (e *Episode) Fault(kind string) {
	e.mu.Lock()
	e.Faults[kind]++
	e.sigHash = fnvAdd(e.sigHash, "F:"+kind)
	e.mu.Unlock()
}

func (e *Episode) Probe(name string) {
	e.mu.Lock()
	e.Probes[name]++
	e.mu.Unlock()
}

func (e *Episode) ProbeN(name string, n int) {
	e.mu.Lock()
	e.Probes[name] += n
	e.mu.Unlock()
}

// Fail records the first violation of the episode.
func (e *Episode) Fail(oracle, format string, a ...interface{}) {
	msg := fmt.Sprintf(format, a...)
	e.mu.Lock()
	first := e.Viol == nil
	if first {
		e.Viol = &Violation{Oracle: oracle, Msg: msg}
	}
	e.mu.Unlock()
	if first {
		e.Logf("VIOLATION %s: %s", oracle, msg)
		e.Freeze()
	}
	e.S.poke()
}

// Freeze ends the recorded part of the episode: teardown (which lets the
// remaining goroutines run freely) must not contribute to the event log.
func (e *Episode) Freeze() {
	e.mu.Lock()
	e.frozen = true
	e.mu.Unlock()
}

func (e *Episode) Failed() bool {
	e.mu.Lock()
	defer e.mu.Unlock()
	return e.Viol != nil
}

func (e *Episode) Log() []string   { return e.log }
func (e *Episode) LogHash() uint64 { return e.logHash }
func (e *Episode) SigHash() uint64 { return e.sigHash }
func (e *Episode) SimTime() time.Duration {
	return time.Since(e.t0)
}
func (e *Episode) Param(k string) string { return e.Params[k] }
func (e *Episode) OnCleanup(f func())    { e.cleanups = append(e.cleanups, f) }

// OnDrained registers f to run when Drain ends. Hooks that turn lock waits into scheduling points must stay
// installed while parked tasks are released one by one: a released task that waits for a lock whose holder
// is still parked has to park again instead of spinning.
func (e *Episode) OnDrained(f func()) { e.afterDrain = append(e.afterDrain, f) }

// BucketSize buckets a size for signatures.
func BucketSize(n int) string {
	switch {
	case n == 0:
		return "0"
	case n == 1:
		return "1"
	case n < 16:
		return "s"
	case n < 4096:
		return "m"
	case n == 4096:
		return "4k"
	case n < 8192:
		return "l"
	case n == 8192:
		return "8k"
	default:
		return "xl"
	}
}

// ---------------------------------------------------------------------------

// Task is a goroutine under the baton scheduler.
type Task struct {
	Name    string
	ch      chan struct{}
	goid    int64
	site    string // non-empty while parked
	always  bool   // parked at a yield: release is always enabled
	Done    bool
	Panic   interface{}
	Stack   string
	Harness bool
}

func (t *Task) Parked() bool { return t.site != "" }
func (t *Task) Site() string { return t.site }

// Event is one thing the scheduler can make happen now.
type Event struct {
	Key    string
	Weight int
	Apply  func()
	// Urgent events (a runnable goroutine, an expired deadline) are things the
	// real system would do without delay: while one is enabled the scheduler
	// does not offer to let time pass, so simulated time never contains
	// scheduling slack of the simulator's own making.
	Urgent bool
}

// Source offers enabled events.
type Source interface {
	Enabled(add func(Event))
}

type SourceFunc func(add func(Event))

func (f SourceFunc) Enabled(add func(Event)) { f(add) }

type Sched struct {
	ep        *Episode
	Mu        sync.Mutex // guards all simulator state (tasks, conns, actors); never held while blocking
	tasks     map[int64]*Task
	order     []*Task
	siteCount map[string]int
	wake      chan struct{}
	sources   []Source
	Steps     int
	MaxSteps  int
	Horizon   time.Duration // sim time with nothing enabled before declaring deadlock
	Invariant func()
	// PassTimeWeight > 0 offers "let time pass by a quantum" even when events are enabled.
	PassTimeWeight int
	Quanta         []time.Duration
	// StallWeight > 0 offers, while runnable tasks are parked at yield points, to keep all of them
	// parked for a quantum of simulated time (a descheduled goroutine, a busy machine): timers
	// that fall due in between fire and their goroutines run first. Stalled accumulates the time
	// injected this way; oracles that bound durations add it as scheduling slack.
	StallWeight int
	StallQuanta []time.Duration
	Stalled     time.Duration
}

func newSched(ep *Episode) *Sched {
	return &Sched{ep: ep, tasks: map[int64]*Task{}, siteCount: map[string]int{}, wake: make(chan struct{}, 1),
		MaxSteps: 20000, Horizon: 2 * time.Minute}
}

func (s *Sched) AddSource(src Source) { s.sources = append(s.sources, src) }

// RemoveSource drops a source (pointer identity).
func (s *Sched) RemoveSource(src Source) {
	for i, x := range s.sources {
		if reflect.TypeOf(x).Comparable() && reflect.TypeOf(src).Comparable() && x == src {
			s.sources = append(s.sources[:i:i], s.sources[i+1:]...)
			return
		}
	}
}

func (s *Sched) poke() {
	select {
	case s.wake <- struct{}{}:
	default:
	}
}

// Poke tells the scheduler that the enabled set may have changed (timers).
func (s *Sched) Poke() { s.poke() }

func goid() int64 {
	var buf [64]byte
	n := runtime.Stack(buf[:], false)
	// "goroutine 123 ["
	b := buf[:n]
	b = b[len("goroutine "):]
	i := bytes.IndexByte(b, ' ')
	id, _ := strconv.ParseInt(string(b[:i]), 10, 64)
	return id
}

// Go starts a harness task. It parks at "start" first, so the scheduler
// decides when it begins.
func (s *Sched) Go(name string, fn func()) *Task {
	t := &Task{Name: name, ch: make(chan struct{}), Harness: true}
	s.Mu.Lock()
	s.order = append(s.order, t)
	s.Mu.Unlock()
	go func() {
		t.goid = goid()
		s.Mu.Lock()
		s.tasks[t.goid] = t
		s.Mu.Unlock()
		defer func() {
			if r := recover(); r != nil {
				t.Panic = r
				t.Stack = string(debug.Stack())
			}
			s.Mu.Lock()
			t.Done = true
			t.site = ""
			delete(s.tasks, t.goid)
			s.Mu.Unlock()
			s.poke()
		}()
		s.park(t, "start", true)
		fn()
	}()
	return t
}

// Current returns the task of the calling goroutine, creating a task for a
// goroutine that hertz itself started (named by the site where first seen).
func (s *Sched) Current(site string) *Task {
	id := goid()
	s.Mu.Lock()
	defer s.Mu.Unlock()
	if t, ok := s.tasks[id]; ok {
		return t
	}
	k := site
	if i := strings.IndexByte(k, ':'); i >= 0 {
		k = k[:i]
	}
	n := s.siteCount[k]
	s.siteCount[k] = n + 1
	t := &Task{Name: fmt.Sprintf("%s#%d", k, n), ch: make(chan struct{}), goid: id}
	s.tasks[id] = t
	s.order = append(s.order, t)
	return t
}

// Known reports whether the calling goroutine is already a task of this scheduler (Current would
// register it). Used by hooks that must leave goroutines of earlier episodes alone.
func (s *Sched) Known() bool {
	id := goid()
	s.Mu.Lock()
	_, ok := s.tasks[id]
	s.Mu.Unlock()
	return ok
}

func (s *Sched) park(t *Task, site string, always bool) {
	s.Mu.Lock()
	t.site = site
	t.always = always
	s.Mu.Unlock()
	s.poke()
	<-t.ch
}

// Yield parks the calling goroutine at a yield site; the scheduler releases it.
func (s *Sched) Yield(site string) {
	t := s.Current(site)
	s.park(t, site, true)
}

// Block parks the calling goroutine until something calls Release on the task
// (used by SimConn etc.: the owner decides when it is enabled).
// Caller must NOT hold s.Mu.
func (s *Sched) Block(t *Task, site string) {
	s.park(t, site, false)
}

// Release wakes a parked task. Called from the scheduler goroutine (event
// Apply) with s.Mu NOT held.
func (s *Sched) Release(t *Task) {
	s.Mu.Lock()
	if t.site == "" {
		s.Mu.Unlock()
		return
	}
	t.site = ""
	s.Mu.Unlock()
	t.ch <- struct{}{}
}

type RunResult int

const (
	RunDone RunResult = iota
	RunViolation
	RunDeadlock
	RunStepCap
)

func (r RunResult) String() string {
	return [...]string{"done", "violation", "deadlock", "stepcap"}[r]
}

func (s *Sched) collect() []Event {
	var evs []Event
	add := func(e Event) {
		if e.Weight == 0 {
			e.Weight = 10
		}
		evs = append(evs, e)
	}
	s.Mu.Lock()
	if len(s.order) > 64 {
		live := s.order[:0:0]
		for _, t := range s.order {
			if !t.Done {
				live = append(live, t)
			}
		}
		s.order = live
	}
	tasks := append([]*Task(nil), s.order...)
	s.Mu.Unlock()
	for _, t := range tasks {
		s.Mu.Lock()
		ok := t.site != "" && t.always && !t.Done
		site := t.site
		s.Mu.Unlock()
		if ok {
			t := t
			add(Event{Key: "run " + t.Name + " @" + site, Urgent: true, Apply: func() { s.Release(t) }})
		}
	}
	for _, src := range s.sources {
		src.Enabled(add)
	}
	sort.SliceStable(evs, func(i, j int) bool { return evs[i].Key < evs[j].Key })
	return evs
}

// Run steps the simulation until done() holds, a violation is recorded, the
// system deadlocks, or the step cap is hit.
// Progress counts scheduler iterations of the whole process; a monitor outside the bubble watches it
// (a goroutine blocked on a sync.Mutex is never quiescent: the bubble would wait for ever).
var Progress atomic.Int64

func (s *Sched) Run(done func() bool) RunResult {
	for {
		Progress.Add(1)
		synctest.Wait()
		Progress.Add(1)
		if s.ep.Failed() {
			return RunViolation
		}
		if done() {
			return RunDone
		}
		evs := s.collect()
		if len(evs) == 0 {
			if !s.passTime(s.Horizon) {
				return RunDeadlock
			}
			continue
		}
		if s.Steps >= s.MaxSteps {
			return RunStepCap
		}
		w := make([]int, len(evs), len(evs)+1)
		for i := range evs {
			w[i] = evs[i].Weight
		}
		urgent := false
		for i := range evs {
			urgent = urgent || evs[i].Urgent
		}
		if s.PassTimeWeight > 0 && !urgent {
			w = append(w, s.PassTimeWeight)
		}
		stallIdx := -1
		if s.StallWeight > 0 && urgent && len(s.StallQuanta) > 0 {
			stallIdx = len(w)
			w = append(w, s.StallWeight)
		}
		i := s.ep.Tape.Weighted("ev", w)
		s.Steps++
		if i == stallIdx {
			q := s.StallQuanta[s.ep.Tape.Choose("stallq", len(s.StallQuanta))]
			s.ep.Logf("step %d: stall %v", s.Steps, q)
			s.ep.Fault("sched-stall")
			t0 := time.Now()
			s.passTime(q)
			s.Stalled += time.Since(t0)
			continue
		}
		if i == len(evs) {
			q := s.Quanta[s.ep.Tape.Choose("quantum", len(s.Quanta))]
			s.ep.Logf("step %d: pass-time %v", s.Steps, q)
			s.passTime(q)
			continue
		}
		if os.Getenv("VSIM_DEBUGTIME") != "" {
			s.ep.Logf("  t=%v", time.Now().Sub(time.Date(2000, 1, 1, 0, 0, 0, 0, time.UTC)))
		}
		s.ep.Logf("step %d: %s", s.Steps, evs[i].Key)
		evs[i].Apply()
		if s.Invariant != nil {
			synctest.Wait()
			s.Invariant()
		}
	}
}

// passTime blocks the scheduler so the fake clock can advance; returns true if
// something poked before d elapsed.
func (s *Sched) passTime(d time.Duration) bool {
	tm := time.NewTimer(d)
	defer tm.Stop()
	select {
	case <-s.wake:
		return true
	case <-tm.C:
		return false
	}
}

// Sleep lets exactly d of simulated time pass (other goroutines may run).
func (s *Sched) Sleep(d time.Duration) {
	time.Sleep(d)
	synctest.Wait()
}

// Describe lists where every live task is (for deadlock reports).
func (s *Sched) Describe() string {
	s.Mu.Lock()
	defer s.Mu.Unlock()
	var parts []string
	for _, t := range s.order {
		if t.Done {
			continue
		}
		st := t.site
		if st == "" {
			st = "blocked-in-hertz-or-running"
		}
		parts = append(parts, t.Name+"@"+st)
	}
	return strings.Join(parts, ", ")
}

// AllHarnessDone reports whether every harness task has finished.
func (s *Sched) AllHarnessDone() bool {
	s.Mu.Lock()
	defer s.Mu.Unlock()
	for _, t := range s.order {
		if t.Harness && !t.Done {
			return false
		}
	}
	return true
}

// Drain ends the episode: runs cleanups (which should close every connection),
// releases everything that is parked and waits for harness tasks to finish.
// Returns false if some goroutine could not be drained (worker must be recycled).
func (s *Sched) Drain() bool {
	defer func() {
		for _, f := range s.ep.afterDrain {
			f()
		}
	}()
	s.ep.Freeze()
	for _, f := range s.ep.cleanups {
		f()
	}
	for i := 0; i < 2000; i++ {
		synctest.Wait()
		s.Mu.Lock()
		var parked []*Task
		live := 0
		for _, t := range s.order {
			if t.Done {
				continue
			}
			if t.site != "" {
				parked = append(parked, t)
			}
			if t.Harness {
				live++
			}
		}
		s.Mu.Unlock()
		if len(parked) == 0 {
			if live == 0 {
				return true
			}
			// harness tasks blocked inside hertz (timers): let time pass
			if !s.passTime(10 * time.Minute) {
				return false
			}
			continue
		}
		for _, t := range parked {
			s.Release(t)
			synctest.Wait()
		}
	}
	return false
}

// ParkedSites lists the sites at which tasks are currently parked.
func (s *Sched) ParkedSites() []string {
	s.Mu.Lock()
	defer s.Mu.Unlock()
	var out []string
	for _, t := range s.order {
		if !t.Done && t.site != "" {
			out = append(out, t.site)
		}
	}
	return out
}

// AnyRunnable reports whether any event is enabled right now.
func (s *Sched) AnyRunnable() bool { return len(s.collect()) > 0 }

// FuncSource is a removable function-backed event source.
type FuncSource struct{ F func(add func(Event)) }

func (f *FuncSource) Enabled(add func(Event)) { f.F(add) }

// ForceGC runs two collections (the second empties the victim caches of sync.Pool) and then
// lets the finalizer goroutine run what they queued: hertz finalizers put objects back into
// pools and free buffers, so that happens here and not somewhere inside the steps that follow.
// Called between episodes and, as a fault ("gc"), from the scheduler goroutine while every task is parked.
func ForceGC() {
	runtime.GC()
	runtime.GC()
	for i := 0; i < 16; i++ {
		runtime.Gosched()
	}
}
