package core

import (
	"fmt"
	"io"
	"net"
	"os"
	"syscall"
	"time"
)

// seg is a run of bytes in flight with the earliest time it may be delivered.
type seg struct {
	data    []byte
	readyAt time.Time
}

// Pipe is one direction of a simulated TCP connection.
type Pipe struct {
	Name      string
	inflight  []seg
	delivered []byte // delivered to the receiver's socket buffer, not yet read
	Total     int    // bytes delivered so far (stream offset)
	Sent      int    // bytes written by the sender so far
	Consumed  int    // bytes read by the receiver
	fin       bool   // sender closed its write side
	finDeliv  bool
	rst       bool
	// Plan: explicit ascending absolute stream offsets at which a delivery must
	// stop (used for "every 2-way split" sweeps). When set, the scheduler does
	// not choose fragment sizes on this pipe.
	Plan []int
	// Auto: receiver is a scripted actor, bytes are handed over at once.
	Auto bool
	// Cap > 0: backpressure; the sender blocks when Cap bytes are in flight (socket buffer full).
	Cap int
	// Boundaries: structural offsets (absolute) used to bias fragment choices.
	Boundaries []int
	// EOFWithData: deliver the FIN together with the last bytes (Read returns n>0, io.EOF).
	EOFWithData bool
	// FragMode selects the fragment menu: 0 = mixed, 1 = byte-at-a-time, 2 = whole
	FragMode int
}

func (p *Pipe) inflightLen() int {
	n := 0
	for _, s := range p.inflight {
		n += len(s.data)
	}
	return n
}

func (p *Pipe) readyLen(now time.Time) int {
	n := 0
	for _, s := range p.inflight {
		if s.readyAt.After(now) {
			break
		}
		n += len(s.data)
	}
	return n
}

func (p *Pipe) take(k int) []byte {
	out := make([]byte, 0, k)
	for k > 0 && len(p.inflight) > 0 {
		s := &p.inflight[0]
		if len(s.data) <= k {
			out = append(out, s.data...)
			k -= len(s.data)
			p.inflight = p.inflight[1:]
		} else {
			out = append(out, s.data[:k]...)
			s.data = s.data[k:]
			k = 0
		}
	}
	return out
}

type waiter struct {
	task     *Task
	timedOut bool
	timer    *time.Timer
}

// SimConn is one endpoint of a simulated connection. It implements net.Conn.
// hertz sees it only through the real standard.Conn.
type SimConn struct {
	n      *Net
	Name   string
	In     *Pipe // bytes towards this endpoint
	Out    *Pipe // bytes from this endpoint
	Peer   *SimConn
	closed bool
	// gotRST: a write went to a closed peer; later writes fail with EPIPE
	gotRST bool
	// LingerData: what had arrived from the peer before it closed stays readable after this end's
	// writes were answered with a reset (Linux keeps the receive queue across an RST; a reset in
	// CLOSE_WAIT is reported as EPIPE), and a writer blocked on a full buffer is woken by the peer's
	// close and fails with EPIPE. Off by default: set per connection by the scenarios that need it.
	LingerData bool
	rdl    time.Time
	wdl    time.Time
	rw     *waiter
	ww     *waiter
	// FailWrite: injected write fault: next Write returns this error.
	FailWrite error
	// ShortRead > 0: Read returns at most this many bytes per call (fault).
	OnOp   func(c *SimConn, op string, n int)
	SawEOF bool // a Read on this end has reported the peer's end-of-stream
	laddr  net.Addr
	raddr  net.Addr
	Closes int
	// ReadCalls counts Read calls that reached the wire (parked or returned data).
	WireReads int
}

// Net owns all simulated connections of an episode.
type Net struct {
	ep    *Episode
	s     *Sched
	conns []*SimConn
	nconn int
}

func NewNet(ep *Episode) *Net {
	n := &Net{ep: ep, s: ep.S}
	ep.S.AddSource(n)
	ep.OnCleanup(n.ResetAll)
	return n
}

// NewPair creates a connection; a is conventionally the hertz end, b the peer/actor end.
func (n *Net) NewPair(name string) (a, b *SimConn) {
	n.s.Mu.Lock()
	defer n.s.Mu.Unlock()
	n.nconn++
	ab := &Pipe{Name: name + ":a>b"}
	ba := &Pipe{Name: name + ":b>a"}
	a = &SimConn{n: n, Name: name + ".a", In: ba, Out: ab,
		laddr: &net.TCPAddr{IP: net.IPv4(10, 0, 0, 1), Port: 8888}, raddr: &net.TCPAddr{IP: net.IPv4(10, 0, 0, 2), Port: 40000 + n.nconn}}
	b = &SimConn{n: n, Name: name + ".b", In: ab, Out: ba,
		laddr: a.raddr, raddr: a.laddr}
	a.Peer, b.Peer = b, a
	n.conns = append(n.conns, a, b)
	return
}

func opErr(op string, c *SimConn, err error) error {
	return &net.OpError{Op: op, Net: "tcp", Source: c.laddr, Addr: c.raddr, Err: err}
}

func errTimeout(op string, c *SimConn) error { return opErr(op, c, os.ErrDeadlineExceeded) }
func errClosed(op string, c *SimConn) error  { return opErr(op, c, net.ErrClosed) }
func errReset(op string, c *SimConn) error {
	return opErr(op, c, &os.SyscallError{Syscall: op, Err: syscall.ECONNRESET})
}
func errPipe(op string, c *SimConn) error {
	return opErr(op, c, &os.SyscallError{Syscall: op, Err: syscall.EPIPE})
}

func (c *SimConn) op(kind string, n int) {
	if c.OnOp != nil {
		c.OnOp(c, kind, n)
	}
}

// Read implements net.Conn for the goroutine end.
func (c *SimConn) Read(p []byte) (int, error) {
	s := c.n.s
	s.Mu.Lock()
	for {
		if c.closed {
			s.Mu.Unlock()
			return 0, errClosed("read", c)
		}
		if c.In.rst || (c.gotRST && !(c.LingerData && (len(c.In.delivered) > 0 || c.In.inflightLen() > 0))) {
			s.Mu.Unlock()
			return 0, errReset("read", c)
		}
		if len(c.In.delivered) > 0 {
			if len(p) == 0 {
				s.Mu.Unlock()
				return 0, nil
			}
			n := copy(p, c.In.delivered)
			c.In.delivered = c.In.delivered[n:]
			c.In.Consumed += n
			var err error
			if c.In.EOFWithData && c.In.finDeliv && len(c.In.delivered) == 0 {
				err = io.EOF
				c.SawEOF = true
			}
			c.WireReads++
			s.Mu.Unlock()
			c.op("read", n)
			return n, err
		}
		if c.In.finDeliv {
			c.SawEOF = true
			s.Mu.Unlock()
			return 0, io.EOF
		}
		now := time.Now()
		if !c.rdl.IsZero() && !now.Before(c.rdl) {
			s.Mu.Unlock()
			return 0, errTimeout("read", c)
		}
		w := &waiter{}
		c.rw = w
		if !c.rdl.IsZero() {
			w.timer = time.AfterFunc(c.rdl.Sub(now), func() {
				s.Mu.Lock()
				w.timedOut = true
				s.Mu.Unlock()
				s.poke()
			})
		}
		s.Mu.Unlock()
		t := s.Current("read:" + c.Name)
		s.Mu.Lock()
		w.task = t
		s.Mu.Unlock()
		s.Block(t, "read:"+c.Name)
		s.Mu.Lock()
		if w.timer != nil {
			w.timer.Stop()
		}
		c.rw = nil
		if w.timedOut && len(c.In.delivered) == 0 && !c.closed && !c.In.rst && !c.In.finDeliv {
			s.Mu.Unlock()
			return 0, errTimeout("read", c)
		}
	}
}

// Write implements net.Conn.
func (c *SimConn) Write(p []byte) (int, error) {
	s := c.n.s
	s.Mu.Lock()
	written := 0
	blocked := false
	for {
		if c.closed {
			s.Mu.Unlock()
			return written, errClosed("write", c)
		}
		if c.FailWrite != nil {
			err := c.FailWrite
			s.Mu.Unlock()
			return written, err
		}
		if c.Out.rst {
			s.Mu.Unlock()
			return written, errReset("write", c)
		}
		if c.gotRST {
			s.Mu.Unlock()
			return written, errPipe("write", c)
		}
		if c.Peer.closed {
			if c.LingerData && blocked {
				// the bytes sent earlier in this call were answered with a reset while the writer waited
				c.gotRST = true
				s.Mu.Unlock()
				c.n.ep.Probe("write-epipe-linger")
				return written, errPipe("write", c)
			}
			// kernel accepts the bytes, the peer answers RST
			c.gotRST = true
			s.Mu.Unlock()
			c.op("write", len(p)-written)
			return len(p), nil
		}
		if len(p) == written {
			s.Mu.Unlock()
			return written, nil
		}
		out := c.Out
		space := len(p) - written
		if out.Cap > 0 {
			space = out.Cap - out.inflightLen()
			if space > len(p)-written {
				space = len(p) - written
			}
		}
		if space > 0 {
			chunk := append([]byte(nil), p[written:written+space]...)
			out.Sent += len(chunk)
			if out.Auto && out.Cap == 0 {
				out.delivered = append(out.delivered, chunk...)
				out.Total += len(chunk)
			} else {
				out.inflight = append(out.inflight, seg{data: chunk})
			}
			written += space
			s.Mu.Unlock()
			c.op("write", space)
			s.Mu.Lock()
			if written == len(p) {
				s.Mu.Unlock()
				s.poke()
				return written, nil
			}
		}
		// blocked on a full socket buffer
		blocked = true
		now := time.Now()
		if !c.wdl.IsZero() && !now.Before(c.wdl) {
			s.Mu.Unlock()
			return written, errTimeout("write", c)
		}
		w := &waiter{}
		c.ww = w
		if !c.wdl.IsZero() {
			w.timer = time.AfterFunc(c.wdl.Sub(now), func() {
				s.Mu.Lock()
				w.timedOut = true
				s.Mu.Unlock()
				s.poke()
			})
		}
		s.Mu.Unlock()
		t := s.Current("write:" + c.Name)
		s.Mu.Lock()
		w.task = t
		s.Mu.Unlock()
		s.Block(t, "write:"+c.Name)
		s.Mu.Lock()
		if w.timer != nil {
			w.timer.Stop()
		}
		c.ww = nil
		// like a socket: the deadline only matters if the write still cannot make progress
		if w.timedOut && !(c.Out.Cap > 0 && c.Out.Cap-c.Out.inflightLen() > 0) && !c.closed && !c.Out.rst {
			s.Mu.Unlock()
			return written, errTimeout("write", c)
		}
	}
}

// Close implements net.Conn: FIN towards the peer, later peer writes get RST.
func (c *SimConn) Close() error {
	s := c.n.s
	s.Mu.Lock()
	if c.closed {
		s.Mu.Unlock()
		return errClosed("close", c)
	}
	c.closed = true
	c.Closes++
	c.Out.fin = true
	if c.Out.Auto && c.Out.inflightLen() == 0 {
		c.Out.finDeliv = true
	}
	c.In.delivered = nil
	c.In.inflight = nil
	s.Mu.Unlock()
	c.op("close", 0)
	c.n.ep.Logf("close %s", c.Name)
	s.poke()
	return nil
}

func (c *SimConn) LocalAddr() net.Addr  { return c.laddr }
func (c *SimConn) RemoteAddr() net.Addr { return c.raddr }

func (c *SimConn) SetDeadline(t time.Time) error {
	c.SetReadDeadline(t)
	return c.SetWriteDeadline(t)
}

func (c *SimConn) rearm(w *waiter, dl time.Time) {
	if w == nil {
		return
	}
	if w.timer != nil {
		w.timer.Stop()
		w.timer = nil
	}
	if dl.IsZero() {
		return
	}
	now := time.Now()
	s := c.n.s
	if !now.Before(dl) {
		w.timedOut = true
		s.poke()
		return
	}
	w.timer = time.AfterFunc(dl.Sub(now), func() {
		s.Mu.Lock()
		w.timedOut = true
		s.Mu.Unlock()
		s.poke()
	})
}

func (c *SimConn) SetReadDeadline(t time.Time) error {
	s := c.n.s
	s.Mu.Lock()
	defer s.Mu.Unlock()
	if c.closed {
		return errClosed("set", c)
	}
	c.rdl = t
	c.rearm(c.rw, t)
	return nil
}

func (c *SimConn) SetWriteDeadline(t time.Time) error {
	s := c.n.s
	s.Mu.Lock()
	defer s.Mu.Unlock()
	if c.closed {
		return errClosed("set", c)
	}
	c.wdl = t
	c.rearm(c.ww, t)
	return nil
}

// ---- actor-side API (called from the scheduler goroutine, in event Apply or setup) ----

// Send queues bytes towards the peer endpoint, deliverable after delay.
func (c *SimConn) Send(data []byte, delay time.Duration) {
	s := c.n.s
	s.Mu.Lock()
	at := time.Now().Add(delay)
	if k := len(c.Out.inflight); k > 0 && c.Out.inflight[k-1].readyAt.After(at) {
		at = c.Out.inflight[k-1].readyAt
	}
	c.Out.inflight = append(c.Out.inflight, seg{data: append([]byte(nil), data...), readyAt: at})
	c.Out.Sent += len(data)
	s.Mu.Unlock()
	if delay > 0 {
		time.AfterFunc(delay, s.poke)
	}
}

// CloseWrite half-closes: FIN after everything in flight.
func (c *SimConn) CloseWrite() {
	s := c.n.s
	s.Mu.Lock()
	c.Out.fin = true
	s.Mu.Unlock()
}

// Reset aborts the connection from this endpoint: the peer sees ECONNRESET,
// bytes in flight in both directions are lost.
func (c *SimConn) Reset() {
	s := c.n.s
	s.Mu.Lock()
	c.closed = true
	c.Out.rst = true
	c.Out.inflight = nil
	c.Out.delivered = nil
	c.In.rst = true
	c.In.inflight = nil
	s.Mu.Unlock()
	c.n.ep.Logf("reset %s", c.Name)
}

// Recv returns everything delivered to this endpoint and not yet taken.
func (c *SimConn) Recv() []byte {
	s := c.n.s
	s.Mu.Lock()
	defer s.Mu.Unlock()
	b := c.In.delivered
	c.In.delivered = nil
	c.In.Consumed += len(b)
	return b
}

// PeerClosedWrite: the other endpoint has closed (FIN visible to this endpoint).
func (c *SimConn) PeerClosedWrite() bool {
	s := c.n.s
	s.Mu.Lock()
	defer s.Mu.Unlock()
	return c.In.finDeliv || (c.In.fin && c.In.inflightLen() == 0 && c.In.Auto)
}

func (c *SimConn) IsClosed() bool {
	s := c.n.s
	s.Mu.Lock()
	defer s.Mu.Unlock()
	return c.closed
}

// ReaderParked: a goroutine is blocked reading from this endpoint.
func (c *SimConn) ReaderParked() bool {
	s := c.n.s
	s.Mu.Lock()
	defer s.Mu.Unlock()
	return c.rw != nil && c.rw.task != nil && c.rw.task.site != ""
}

// InflightTo returns the number of bytes queued towards this endpoint, not yet delivered.
func (c *SimConn) InflightTo() int {
	s := c.n.s
	s.Mu.Lock()
	defer s.Mu.Unlock()
	return c.In.inflightLen()
}

// ArrivedTo returns how many bytes of the stream towards this endpoint have reached its host:
// what the endpoint has been handed plus what is past its network delay and waits in the
// socket buffer for the next read.
func (c *SimConn) ArrivedTo() int {
	s := c.n.s
	s.Mu.Lock()
	defer s.Mu.Unlock()
	return c.In.Total + c.In.readyLen(time.Now())
}

// Drop forgets a finished connection pair (keeps long episodes linear).
func (n *Net) Drop(cs ...*SimConn) {
	n.s.Mu.Lock()
	defer n.s.Mu.Unlock()
	out := n.conns[:0:0]
	for _, c := range n.conns {
		keep := true
		for _, d := range cs {
			if c == d {
				keep = false
			}
		}
		if keep {
			out = append(out, c)
		}
	}
	n.conns = out
}

// ResetAll tears down every connection (episode cleanup).
func (n *Net) ResetAll() {
	n.s.Mu.Lock()
	cs := append([]*SimConn(nil), n.conns...)
	n.s.Mu.Unlock()
	for _, c := range cs {
		n.s.Mu.Lock()
		c.closed = true
		c.In.rst, c.Out.rst = true, true
		n.s.Mu.Unlock()
	}
}

// Enabled offers the network events: deliveries, FIN, timeouts, wake-ups.
func (n *Net) Enabled(add func(Event)) {
	s := n.s
	s.Mu.Lock()
	conns := append([]*SimConn(nil), n.conns...)
	now := time.Now()
	type cand struct {
		key string
		w   int
		f   func()
		u   bool
	}
	var cs []cand
	for _, c := range conns {
		c := c
		if w := c.rw; w != nil && w.task != nil && w.task.site != "" {
			in := c.In
			switch {
			case c.closed:
				cs = append(cs, cand{"wake-closed " + c.Name, 10, func() { s.Release(w.task) }, true})
			case in.rst:
				cs = append(cs, cand{"wake-rst " + c.Name, 10, func() { s.Release(w.task) }, true})
			default:
				if w.timedOut {
					cs = append(cs, cand{"rtimeout " + c.Name, 10, func() {
						n.ep.Sig("rtimeout")
						s.Release(w.task)
					}, true})
				}
				if rl := in.readyLen(now); rl > 0 {
					cs = append(cs, cand{"deliver " + in.Name, 30, func() { n.deliver(c, w) }, false})
				} else if in.inflightLen() == 0 && in.fin && !in.finDeliv {
					cs = append(cs, cand{"fin " + in.Name, 10, func() {
						s.Mu.Lock()
						in.finDeliv = true
						s.Mu.Unlock()
						n.ep.Sig("fin")
						s.Release(w.task)
					}, false})
				}
			}
		}
		if w := c.ww; w != nil && w.task != nil && w.task.site != "" {
			out := c.Out
			switch {
			case c.closed, out.rst, w.timedOut, c.LingerData && c.Peer != nil && c.Peer.closed:
				cs = append(cs, cand{"wake-writer " + c.Name, 10, func() { s.Release(w.task) }, true})
			case out.Cap > 0 && out.inflightLen() < out.Cap:
				cs = append(cs, cand{"wake-writer " + c.Name, 10, func() { s.Release(w.task) }, true})
			}
		}
	}
	s.Mu.Unlock()
	for _, c := range cs {
		add(Event{Key: c.key, Weight: c.w, Apply: c.f, Urgent: c.u})
	}
}

// fragment decides how many of the avail ready bytes to deliver now.
func (n *Net) fragment(p *Pipe, avail int) int {
	tp := n.ep.Tape
	if len(p.Plan) > 0 {
		for _, cut := range p.Plan {
			if cut > p.Total {
				if k := cut - p.Total; k < avail {
					return k
				}
				return avail
			}
		}
		return avail
	}
	switch p.FragMode {
	case 1:
		return 1
	case 2:
		return avail
	}
	if avail == 1 {
		return 1
	}
	// menu: 0 all, 1 one byte, 2 two bytes, 3 up to next boundary, 4 boundary-1, 5 boundary+1, 6 uniform, 7 next 4096-multiple ±1
	m := tp.Weighted("frag", []int{40, 8, 4, 14, 8, 8, 12, 6})
	k := avail
	switch m {
	case 1:
		k = 1
	case 2:
		k = 2
	case 3, 4, 5:
		k = avail
		for _, b := range p.Boundaries {
			if b > p.Total {
				k = b - p.Total + (map[int]int{3: 0, 4: -1, 5: 1})[m]
				break
			}
		}
	case 6:
		k = 1 + tp.Choose("fragk", avail)
	case 7:
		next := (p.Total/4096 + 1) * 4096
		k = next - p.Total + tp.Choose("frag4k", 3) - 1
	}
	if k < 1 {
		k = 1
	}
	if k > avail {
		k = avail
	}
	return k
}

func (n *Net) deliver(c *SimConn, w *waiter) {
	s := n.s
	s.Mu.Lock()
	in := c.In
	avail := in.readyLen(time.Now())
	s.Mu.Unlock()
	if avail == 0 {
		return
	}
	k := n.fragment(in, avail)
	s.Mu.Lock()
	b := in.take(k)
	in.delivered = append(in.delivered, b...)
	in.Total += len(b)
	if in.EOFWithData && in.fin && in.inflightLen() == 0 {
		in.finDeliv = true
	}
	rest := in.inflightLen()
	s.Mu.Unlock()
	if rest > 0 {
		n.ep.Sig("frag:" + BucketSize(k))
		n.ep.ProbeN("fragments", 1)
	}
	n.ep.Logf("  deliver %dB on %s (offset %d, %d left)", k, in.Name, in.Total, rest)
	s.Release(w.task)
}

// AcceptFromWriter moves k in-flight bytes of a backpressured pipe into the
// receiver's buffer (the actor "reads" k bytes), freeing space for the writer.
func (c *SimConn) AcceptFromWriter(k int) int {
	s := c.n.s
	s.Mu.Lock()
	defer s.Mu.Unlock()
	in := c.In
	if a := in.inflightLen(); k > a {
		k = a
	}
	b := in.take(k)
	in.delivered = append(in.delivered, b...)
	in.Total += len(b)
	if in.fin && in.inflightLen() == 0 {
		in.finDeliv = true
	}
	return k
}

func (c *SimConn) String() string { return fmt.Sprintf("SimConn(%s)", c.Name) }

// SimListener is an in-memory net.Listener: Accept parks, dials enqueue into a
// backlog, Close refuses further dials and resets what is still in the backlog.
type SimListener struct {
	n        *Net
	Name     string
	backlog  []*SimConn // server ends waiting to be accepted
	closed   bool
	acceptor *Task
	Accepted int
	// AcceptedConns: server ends handed to the accept loop, in order
	AcceptedConns []*SimConn
	addr          net.Addr
}

func (n *Net) NewListener(name string) *SimListener {
	l := &SimListener{n: n, Name: name, addr: &net.TCPAddr{IP: net.IPv4(10, 0, 0, 1), Port: 8888}}
	n.s.AddSource(l)
	return l
}

// Dial is the harness-side connect: returns the client end, or nil if refused.
func (l *SimListener) Dial(name string) (client *SimConn) {
	l.n.s.Mu.Lock()
	closed := l.closed
	l.n.s.Mu.Unlock()
	if closed {
		return nil
	}
	a, b := l.n.NewPair(name)
	a.Out.Auto = true
	l.n.s.Mu.Lock()
	l.backlog = append(l.backlog, a)
	l.n.s.Mu.Unlock()
	return b
}

// HasAcceptor reports whether a goroutine is parked in Accept right now.
func (l *SimListener) HasAcceptor() bool {
	l.n.s.Mu.Lock()
	defer l.n.s.Mu.Unlock()
	return l.acceptor != nil
}

func (l *SimListener) Accept() (net.Conn, error) {
	s := l.n.s
	for {
		s.Mu.Lock()
		if l.closed {
			s.Mu.Unlock()
			return nil, &net.OpError{Op: "accept", Net: "tcp", Addr: l.addr, Err: net.ErrClosed}
		}
		s.Mu.Unlock()
		t := s.Current("accept")
		s.Mu.Lock()
		l.acceptor = t
		s.Mu.Unlock()
		s.Block(t, "accept:"+l.Name)
		s.Mu.Lock()
		l.acceptor = nil
		if l.closed {
			s.Mu.Unlock()
			return nil, &net.OpError{Op: "accept", Net: "tcp", Addr: l.addr, Err: net.ErrClosed}
		}
		if len(l.backlog) > 0 {
			c := l.backlog[0]
			l.backlog = l.backlog[1:]
			l.Accepted++
			l.AcceptedConns = append(l.AcceptedConns, c)
			s.Mu.Unlock()
			return c, nil
		}
		s.Mu.Unlock()
	}
}

func (l *SimListener) Close() error {
	s := l.n.s
	s.Mu.Lock()
	if l.closed {
		s.Mu.Unlock()
		return &net.OpError{Op: "close", Net: "tcp", Addr: l.addr, Err: net.ErrClosed}
	}
	l.closed = true
	bl := l.backlog
	l.backlog = nil
	s.Mu.Unlock()
	for _, c := range bl {
		c.Reset() // never accepted: the peer sees a reset
	}
	l.n.ep.Logf("listener %s closed (%d in backlog reset)", l.Name, len(bl))
	s.poke()
	return nil
}

func (l *SimListener) Addr() net.Addr { return l.addr }

func (l *SimListener) IsClosed() bool {
	l.n.s.Mu.Lock()
	defer l.n.s.Mu.Unlock()
	return l.closed
}

func (l *SimListener) BacklogLen() int {
	l.n.s.Mu.Lock()
	defer l.n.s.Mu.Unlock()
	return len(l.backlog)
}

func (l *SimListener) Enabled(add func(Event)) {
	s := l.n.s
	s.Mu.Lock()
	t := l.acceptor
	ok := t != nil && t.site != "" && (len(l.backlog) > 0 || l.closed)
	closed := l.closed
	s.Mu.Unlock()
	if !ok {
		return
	}
	key := "accept " + l.Name
	if closed {
		key = "wake-acceptor " + l.Name
	}
	add(Event{Key: key, Weight: 20, Urgent: closed, Apply: func() { s.Release(t) }})
}
