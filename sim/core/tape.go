// Package core is the deterministic simulator: tape (the single source of
// choices), baton scheduler over real goroutines, simulated network.
package core

import (
	"fmt"
	"time"
)

// SplitMix64 derives independent seeds: worker seed from run seed, episode seed
// from worker seed.
func SplitMix64(seed uint64, idx uint64) uint64 {
	z := seed + 0x9e3779b97f4a7c15*(idx+1)
	z = (z ^ (z >> 30)) * 0xbf58476d1ce4e5b9
	z = (z ^ (z >> 27)) * 0x94d049bb133111eb
	return z ^ (z >> 31)
}

type rng struct{ s uint64 }

func (r *rng) next() uint64 {
	r.s += 0x9e3779b97f4a7c15
	z := r.s
	z = (z ^ (z >> 30)) * 0xbf58476d1ce4e5b9
	z = (z ^ (z >> 27)) * 0x94d049bb133111eb
	return z ^ (z >> 31)
}

// Tape is the only source of nondeterministic choices in an episode.
// Exploration mode: values come from the PRNG and are recorded.
// Replay mode: values are read from Vals (value mod n; exhausted tape => 0).
// Convention: 0 is always the most benign choice.
type Tape struct {
	Replay bool
	Vals   []uint32
	pos    int
	r      rng
	// Labels of the choices made (parallel to consumed positions); kept only
	// when KeepLabels is set (replay / debugging).
	KeepLabels bool
	Labels     []string
}

func NewTape(seed uint64) *Tape { return &Tape{r: rng{s: seed}} }

func ReplayTape(vals []uint32) *Tape {
	return &Tape{Replay: true, Vals: append([]uint32(nil), vals...)}
}

// Pos is the number of choices consumed.
func (t *Tape) Pos() int { return t.pos }

// Recorded returns the values consumed so far (exploration: all recorded).
func (t *Tape) Recorded() []uint32 {
	if t.Replay {
		n := t.pos
		if n > len(t.Vals) {
			n = len(t.Vals)
		}
		return append([]uint32(nil), t.Vals[:n]...)
	}
	return append([]uint32(nil), t.Vals...)
}

// Choose returns a value in [0,n). n<=1 consumes nothing.
func (t *Tape) Choose(label string, n int) int {
	if n <= 1 {
		return 0
	}
	var v uint32
	if t.Replay {
		if t.pos < len(t.Vals) {
			v = t.Vals[t.pos] % uint32(n)
		}
	} else {
		v = uint32(t.r.next() % uint64(n))
		t.Vals = append(t.Vals, v)
	}
	t.pos++
	if t.KeepLabels {
		t.Labels = append(t.Labels, fmt.Sprintf("%s=%d/%d", label, v, n))
	}
	return int(v)
}

// Chance is true with probability num/den; value 0 (benign) is always false.
func (t *Tape) Chance(label string, num, den int) bool {
	if num <= 0 {
		return false
	}
	return t.Choose(label, den) >= den-num
}

// Range returns a value in [lo,hi].
func (t *Tape) Range(label string, lo, hi int) int {
	if hi <= lo {
		return lo
	}
	return lo + t.Choose(label, hi-lo+1)
}

// Weighted picks an index with probability proportional to w[i]. Index 0
// should be the benign option.
func (t *Tape) Weighted(label string, w []int) int {
	tot := 0
	for _, x := range w {
		tot += x
	}
	if tot <= 0 {
		return 0
	}
	v := t.Choose(label, tot)
	for i, x := range w {
		if v < x {
			return i
		}
		v -= x
	}
	return len(w) - 1
}

// Pick returns one of the given ints.
func (t *Tape) Pick(label string, opts ...int) int {
	return opts[t.Choose(label, len(opts))]
}

// Bytes fills a deterministic pseudo-random-looking but *choice-free* payload:
// payload content is a pure function of (tag,n) so bodies cost no tape.
func PatternBytes(tag byte, n int) []byte {
	b := make([]byte, n)
	x := uint32(tag)*2654435761 + 12345
	for i := range b {
		x = x*1664525 + 1013904223
		// printable, never CR/LF, to keep traces readable
		b[i] = 'a' + byte((x>>24)%26)
	}
	return b
}

// PickDur returns one of the given durations.
func (t *Tape) PickDur(label string, opts ...time.Duration) time.Duration {
	return opts[t.Choose(label, len(opts))]
}
