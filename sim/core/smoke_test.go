package core

import (
	"testing"
	"testing/synctest"
	"time"

	_ "github.com/cloudwego/hertz/pkg/app/client"
	"github.com/cloudwego/hertz/pkg/network/standard"
	_ "github.com/cloudwego/hertz/pkg/route"
)

func TestSmoke(t *testing.T) {
	synctest.Test(t, func(t *testing.T) {
		_ = standard.NewVerifConn
		t0 := time.Now()
		time.Sleep(time.Hour)
		t.Log(time.Since(t0), t0)
	})
}
