module verifsim

go 1.25

require github.com/cloudwego/hertz v0.0.0

require (
	github.com/bytedance/gopkg v0.1.0 // indirect
	github.com/cloudwego/netpoll v0.6.4 // indirect
	github.com/fsnotify/fsnotify v1.5.4 // indirect
	github.com/golang/protobuf v1.5.0 // indirect
	github.com/nyaruka/phonenumbers v1.0.55 // indirect
	github.com/tidwall/gjson v1.14.4 // indirect
	github.com/tidwall/match v1.1.1 // indirect
	github.com/tidwall/pretty v1.2.0 // indirect
	golang.org/x/sys v0.24.0 // indirect
	google.golang.org/protobuf v1.27.1 // indirect
)

replace github.com/cloudwego/hertz => /repo
