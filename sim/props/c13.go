package props

import (
	"bytes"
	"errors"
	"fmt"
	"io"
	"net"
	"syscall"
	"time"

	"github.com/cloudwego/hertz/pkg/network"
	"github.com/cloudwego/hertz/pkg/network/standard"

	"verifsim/core"
)

func init() {
	Registry["C13"] = RunC13
	Metas["C13"] = Meta{
		Rule:           "episode = 20..200 reader ops (Peek/Skip/ReadByte/ReadBinary/Read small+large/Release/Len) and writer ops (Malloc/WriteBinary copy+zero-copy/Flush/Write/ReadFrom) on the real standard.Conn over a SimConn; inbound stream fragmented by the seeded scheduler (1B..20KiB, buffer-edge biased), FIN at any offset, EOF delivered with data, read-deadline expiry then continuation, peer accepting writes in pieces (backpressure), write error at a flush; sizes around 1/4095/4096/4097/8192/512KiB; initial buffers 4096/8192/65536. Oracle: byte-queue model stepped op by op. Non-trivial: >= 2 fragments and >= 10 ops; distinct = abstract signature (op kinds x size buckets x fragment buckets x faults). Added later: slices returned by ReadBinary are overwritten by the harness and must stay so (ownership); one episode in four drives network.NewWriter (Malloc / WriteBinary copy+link / Flush) over a sink with injected write errors and short writes against the concatenation model. Later still: the application goes on using zero-copy buffers it got back at earlier flushes; regions reserved with Malloc are filled in only right before the next flush.",
		Real:           []string{"standard.Conn: fill/Peek/peekBuffer/Skip/Release/handleTail/next/Read/ReadByte/ReadBinary/Malloc/WriteBinary/Flush/Write/ReadFrom", "linkBuffer nodes, mcache"},
		Stub:           []string{"TCP (SimConn)", "clock (synctest)"},
		Assumptions:    []string{"Read() on the connection releases earlier peeked slices (it calls Release internally); the peek-stability oracle treats it as a release point"},
		RequiredProbes: []string{"fragments", "peek-cross-node", "big-peek", "eof-mid", "eof-with-data", "read-timeout", "zero-copy-write", "zero-copy-subslices", "backpressure", "write-error", "readfrom", "netwriter", "netwriter-zero-copy", "sink-write-error", "malloc-filled-late"},
	}
}

type peeked struct {
	live []byte
	copy []byte
	at   int
}

type c13state struct {
	ep       *core.Episode
	conn     network.Conn
	sc       *core.SimConn
	stream   []byte // everything the peer will ever send
	trunc    int    // bytes delivered before FIN
	pos      int    // consumed
	wireRead int    // bytes the conn took from the socket
	peeks    []peeked
	copies   [][]byte // results of ReadBinary, overwritten with '#' by the caller: they are the caller's for good
	// writer
	pending  []byte // written, not yet flushed (model)
	flushed  []byte // must have been received by the peer
	rx       []byte
	zc       [][]byte // zero-copy buffers handed to WriteBinary, valid until flush
	released [][]byte // zero-copy buffers of earlier flushes: the application's own memory again
	late     [][2][]byte // regions reserved with Malloc that the application fills only right before the next flush: (region, content)
	ops      int
	dead     bool
}

func (s *c13state) checkPeeks(after string) bool {
	for _, p := range s.peeks {
		if !bytes.Equal(p.live, p.copy) {
			s.ep.Fail("C13.peek-stable", "slice peeked at stream offset %d (%dB) changed after %s before any Release (first difference at %d)", p.at, len(p.copy), after, firstDiff(p.live, p.copy))
			return false
		}
	}
	return true
}

func (s *c13state) checkLen(after string) bool {
	want := s.wireRead - s.pos
	if got := s.conn.Len(); got != want {
		s.ep.Fail("C13.len", "Len()=%d after %s, model has %d buffered-unconsumed (wire reads %d, consumed %d)", got, after, want, s.wireRead, s.pos)
		return false
	}
	return true
}

func errClass(err error) string {
	if err == nil {
		return "nil"
	}
	var ne net.Error
	switch {
	case err == io.EOF:
		return "eof"
	case errors.As(err, &ne) && ne.Timeout():
		return "timeout"
	case errors.Is(err, syscall.ECONNRESET), errors.Is(err, syscall.EPIPE):
		return "reset"
	case errors.Is(err, net.ErrClosed):
		return "closed"
	}
	return "other:" + err.Error()
}

// expectData checks bytes returned at the current position (without consuming).
func (s *c13state) expectData(op string, got []byte) bool {
	if s.pos+len(got) > s.trunc {
		s.ep.Fail("C13.bytes", "%s at offset %d returned %dB but only %d bytes exist in the stream", op, s.pos, len(got), s.trunc-s.pos)
		return false
	}
	if !bytes.Equal(got, s.stream[s.pos:s.pos+len(got)]) {
		s.ep.Fail("C13.bytes", "%s at offset %d returned wrong bytes (%dB, first difference at %d)", op, s.pos, len(got), firstDiff(got, s.stream[s.pos:]))
		return false
	}
	return true
}

func pickN(tp *core.Tape, big bool) int {
	switch tp.Weighted("nsz", []int{5, 5, 2, 1}) {
	case 0:
		return tp.Choose("n-small", 40)
	case 1:
		return tp.Pick("n-edge", 1, 2, 4095, 4096, 4097, 8191, 8192, 8193, 1023, 1024, 1025)
	case 2:
		return tp.Choose("n-mid", 20000)
	default:
		if big {
			return tp.Pick("n-big", 512*1024, 512*1024+1, 300000)
		}
		return tp.Choose("n-mid2", 70000)
	}
}

func RunC13(ep *core.Episode) {
	tp := ep.Tape
	// values 0..2 keep the meaning they had as a three-way pick (recorded tapes); 3: the generic buffered writer
	bk := tp.Choose("bufsize", 4)
	if bk == 3 {
		runC13NetWriter(ep)
		return
	}
	nw := core.NewNet(ep)
	a, b := nw.NewPair("k")
	bufSize := []int{4096, 8192, 65536}[bk]
	big := tp.Chance("bigstream", 1, 12)
	total := 200 + tp.Choose("total", 60000)
	if big {
		total = 700000 + tp.Choose("totalbig", 100000)
	}
	st := &c13state{ep: ep, sc: a, stream: core.PatternBytes(3, total)}
	st.trunc = total
	faulty := tp.Chance("faulty", 1, 2)
	eofMid := faulty && tp.Chance("eofmid", 1, 3)
	if eofMid {
		st.trunc = tp.Choose("truncat", total+1)
		ep.Fault("eof-mid")
	}
	if faulty && tp.Chance("eofdata", 1, 3) {
		a.In.EOFWithData = true
		ep.Fault("eof-with-data")
	}
	// peer sends the stream, in 1..4 segments, some delayed beyond the read timeout
	readTimeout := time.Duration(0)
	nseg := 1 + tp.Choose("nseg", 4)
	cuts := []int{0}
	for i := 1; i < nseg; i++ {
		cuts = append(cuts, tp.Choose("segcut", st.trunc+1))
	}
	cuts = append(cuts, st.trunc)
	for i := 1; i < len(cuts); i++ {
		for j := i; j > 0 && cuts[j] < cuts[j-1]; j-- {
			cuts[j], cuts[j-1] = cuts[j-1], cuts[j]
		}
	}
	timeouts := faulty && tp.Chance("timeouts", 1, 2)
	if timeouts {
		readTimeout = 50 * time.Millisecond
	}
	for i := 1; i < len(cuts); i++ {
		d := time.Duration(0)
		if timeouts && i > 1 && tp.Chance("segdelay", 1, 2) {
			d = tp.PickDur("segdelayv", 10*time.Millisecond, 49*time.Millisecond, 50*time.Millisecond, 51*time.Millisecond, 200*time.Millisecond)
		}
		b.Send(st.stream[cuts[i-1]:cuts[i]], d)
	}
	b.CloseWrite()
	a.In.Boundaries = []int{4096, 8192, 12288, 16384, 65536}
	// write side
	wmode := 0
	if faulty {
		wmode = tp.Weighted("wmode", []int{2, 2, 1})
	}
	a.Out.Auto = true
	if wmode >= 1 {
		a.Out.Cap = tp.Pick("wcap", 1000, 4096, 10000, 100000)
	}
	failAtFlush := -1
	if wmode == 2 {
		failAtFlush = tp.Choose("failflush", 6)
	}
	a.OnOp = func(c *core.SimConn, op string, n int) {
		if op == "read" {
			st.wireRead += n
		}
	}
	nops := 20 + tp.Choose("nops", 181)
	var task *core.Task
	task = ep.S.Go("api", func() {
		conn := standard.NewVerifConn(a, bufSize)
		st.conn = conn
		if readTimeout > 0 {
			conn.SetReadTimeout(readTimeout)
		}
		flushes := 0
		for i := 0; i < nops && !ep.Failed() && !st.dead; i++ {
			st.ops++
			if tp.Chance("writeop", 3, 10) {
				st.writeOp(tp, &flushes, failAtFlush)
			} else {
				st.readOp(tp, big, readTimeout)
			}
		}
	})
	// peer acceptance of writes under backpressure
	ep.S.AddSource(core.SourceFunc(func(add func(core.Event)) {
		if b.InflightTo() > 0 {
			add(core.Event{Key: "peer-accept k", Apply: func() {
				n := b.InflightTo()
				k := n
				switch tp.Weighted("acc", []int{4, 2, 3}) {
				case 1:
					k = 1
				case 2:
					k = 1 + tp.Choose("acck", n)
				}
				b.AcceptFromWriter(k)
				ep.Fault("backpressure")
			}})
		}
	}))
	res := ep.S.Run(func() bool { return task.Done })
	if task.Panic != nil {
		if PanicInHertz(task.Stack) {
			ep.Fail("C13.panic", "panic in hertz: %v at %s", task.Panic, panicTop(task.Stack))
		} else {
			ep.Infra = fmt.Sprintf("harness panic: %v\n%s", task.Panic, task.Stack)
		}
		return
	}
	switch res {
	case core.RunDeadlock:
		ep.Fail("C13.hang", "operation blocked although the bytes it needs were sent or the stream ended: pos=%d trunc=%d wire=%d; %s", st.pos, st.trunc, st.wireRead, ep.S.Describe())
	case core.RunStepCap:
		ep.Infra = "step cap"
	}
	ep.Nontrivial = ep.Probes["fragments"] >= 2 && st.ops >= 10
	ep.Sample = map[string]interface{}{"ops": st.ops, "stream_bytes": total, "eof_at": st.trunc, "bufsize": bufSize, "fragments": ep.Probes["fragments"], "faults": fmt.Sprint(ep.Faults), "consumed": st.pos, "written": len(st.flushed)}
}

func (st *c13state) readOp(tp *core.Tape, big bool, readTimeout time.Duration) {
	ep := st.ep
	conn := st.conn
	op := tp.Weighted("rop", []int{6, 4, 2, 3, 4, 3, 2})
	remaining := st.trunc - st.pos
	switch op {
	case 0: // Peek
		n := pickN(tp, big)
		if n == 0 {
			n = 1
		}
		ep.Sig("peek:" + core.BucketSize(n))
		lenBefore := conn.Len()
		p, err := conn.Peek(n)
		ep.Logf("op Peek(%d) -> %dB %s", n, len(p), errClass(err))
		if n > 512*1024 {
			ep.Probe("big-peek")
		}
		if n > lenBefore && lenBefore > 0 && err == nil {
			ep.Probe("peek-cross-node")
		}
		if !st.expectData("Peek", p) {
			return
		}
		switch cls := errClass(err); {
		case cls == "nil":
			if len(p) != n {
				ep.Fail("C13.bytes", "Peek(%d) returned %dB with nil error", n, len(p))
				return
			}
		case cls == "timeout":
			ep.Fault("read-timeout")
			if readTimeout == 0 {
				ep.Fail("C13.errors", "Peek timed out without a deadline")
				return
			}
			conn.SetReadTimeout(0) // continue without a deadline
		case cls == "eof":
			if remaining >= n {
				ep.Fail("C13.errors", "Peek(%d) failed with EOF although %d more bytes were sent", n, remaining)
				return
			}
		default:
			ep.Fail("C13.errors", "Peek(%d) failed with unexpected error %v", n, err)
			return
		}
		if len(p) > 0 {
			st.peeks = append(st.peeks, peeked{live: p, copy: append([]byte(nil), p...), at: st.pos})
		}
	case 1: // Skip
		n := 0
		if l := conn.Len(); l > 0 && tp.Chance("skipok", 9, 10) {
			n = 1 + tp.Choose("skipn", l)
		} else {
			n = conn.Len() + 1 + tp.Choose("skipover", 3)
		}
		l := conn.Len()
		err := conn.Skip(n)
		ep.Logf("op Skip(%d) with Len %d -> %v", n, l, err)
		if n <= l {
			if err != nil {
				ep.Fail("C13.errors", "Skip(%d) failed with %d buffered: %v", n, l, err)
				return
			}
			st.pos += n
		} else if err == nil {
			ep.Fail("C13.errors", "Skip(%d) succeeded with only %d buffered", n, l)
			return
		}
	case 2: // ReadByte
		c, err := conn.ReadByte()
		ep.Logf("op ReadByte -> %s", errClass(err))
		if err == nil {
			if !st.expectData("ReadByte", []byte{c}) {
				return
			}
			st.pos++
		} else if cls := errClass(err); cls == "timeout" {
			ep.Fault("read-timeout")
			conn.SetReadTimeout(0)
		} else if cls != "eof" || remaining > 0 {
			ep.Fail("C13.errors", "ReadByte failed with %v, %d bytes remain", err, remaining)
			return
		}
	case 3: // ReadBinary
		n := pickN(tp, false)
		p, err := conn.ReadBinary(n)
		ep.Logf("op ReadBinary(%d) -> %dB %s", n, len(p), errClass(err))
		if err == nil {
			if len(p) != n {
				ep.Fail("C13.bytes", "ReadBinary(%d) returned %dB", n, len(p))
				return
			}
			if !st.expectData("ReadBinary", p) {
				return
			}
			st.pos += n
			// a copy: scribbling on it must not affect anything
			for i := range p {
				p[i] = '#'
			}
			if len(p) > 0 {
				st.copies = append(st.copies, p)
				if len(st.copies) > 6 {
					st.copies = st.copies[1:]
				}
			}
		} else if cls := errClass(err); cls == "timeout" {
			ep.Fault("read-timeout")
			conn.SetReadTimeout(0)
		} else if cls != "eof" || remaining >= n {
			ep.Fail("C13.errors", "ReadBinary(%d) failed with %v, %d bytes remain", n, err, remaining)
			return
		}
	case 4: // Read
		n := pickN(tp, false)
		if n == 0 {
			n = 1
		}
		buf := make([]byte, n)
		ep.Sig("read:" + core.BucketSize(n))
		k, err := conn.Read(buf)
		ep.Logf("op Read(%d) -> %d %s", n, k, errClass(err))
		// Read releases internally: earlier peeks are no longer protected
		if !st.checkPeeks("the ops before Read") {
			return
		}
		st.peeks = nil
		if k > 0 {
			if !st.expectData("Read", buf[:k]) {
				return
			}
			st.pos += k
		}
		switch cls := errClass(err); cls {
		case "nil":
			if k == 0 {
				ep.Fail("C13.errors", "Read returned 0, nil")
				return
			}
		case "timeout":
			ep.Fault("read-timeout")
			conn.SetReadTimeout(0)
		case "eof":
			if st.trunc-st.pos > 0 {
				ep.Fail("C13.errors", "Read returned EOF with %d bytes of the stream undelivered to the caller", st.trunc-st.pos)
				return
			}
		default:
			ep.Fail("C13.errors", "Read failed with %v", err)
			return
		}
	case 5: // Release
		if !st.checkPeeks("the ops before Release") {
			return
		}
		st.peeks = nil
		err := conn.Release()
		ep.Logf("op Release -> %v", err)
		if err != nil {
			ep.Fail("C13.errors", "Release failed: %v", err)
			return
		}
	case 6: // Len only
		ep.Logf("op Len -> %d", conn.Len())
	}
	if ep.Failed() {
		return
	}
	st.checkLen(fmt.Sprintf("op #%d", st.ops))
	st.checkPeeks(fmt.Sprintf("op #%d", st.ops))
	for _, c := range st.copies {
		for i := range c {
			if c[i] != '#' {
				ep.Fail("C13.bytes", "a %dB slice returned by an earlier ReadBinary (a copy owned by the caller) was written to by op #%d (first difference at %d)", len(c), st.ops, i)
				return
			}
		}
	}
}

type piecesReader struct {
	data   []byte
	sizes  []int
	i      int
	zeroes int
}

func (r *piecesReader) Read(p []byte) (int, error) {
	if len(r.data) == 0 {
		return 0, io.EOF
	}
	if r.zeroes > 0 {
		r.zeroes--
		return 0, nil
	}
	n := len(p)
	if r.i < len(r.sizes) && r.sizes[r.i] < n {
		n = r.sizes[r.i]
	}
	r.i++
	if n > len(r.data) {
		n = len(r.data)
	}
	copy(p, r.data[:n])
	r.data = r.data[n:]
	if len(r.data) == 0 && n%2 == 1 {
		return n, io.EOF // EOF together with the last data
	}
	return n, nil
}

func (st *c13state) writeOp(tp *core.Tape, flushes *int, failAtFlush int) {
	ep := st.ep
	conn := st.conn
	wtag := byte(100 + st.ops%100)
	afterFlush := func(err error, what string) {
		*flushes++
		// bytes still in the simulated socket buffer count as sent
		st.sc.Peer.AcceptFromWriter(st.sc.Peer.InflightTo())
		st.rx = append(st.rx, st.sc.Peer.Recv()...)
		if err != nil {
			cls := errClass(err)
			if st.sc.FailWrite == nil {
				ep.Fail("C13.write", "%s failed without an injected fault: %v", what, err)
				return
			}
			_ = cls
			// under a write fault: the peer holds a prefix, never reordered/duplicated
			all := append(append([]byte(nil), st.flushed...), st.pending...)
			if len(st.rx) > len(all) || !bytes.Equal(st.rx, all[:len(st.rx)]) {
				ep.Fail("C13.write", "after a write error the peer holds %dB that are not a prefix of what was written", len(st.rx))
			}
			st.dead = true
			return
		}
		st.flushed = append(st.flushed, st.pending...)
		st.pending = nil
		if !bytes.Equal(st.rx, st.flushed) {
			ep.Fail("C13.write", "after %s returned nil the peer has %dB, want exactly the %dB written so far (first difference at %d)", what, len(st.rx), len(st.flushed), firstDiff(st.rx, st.flushed))
			return
		}
		// zero-copy buffers may be reused by the application after a successful flush
		for _, z := range st.zc {
			for i := range z {
				z[i] = '!'
			}
		}
		st.released = append(st.released, st.zc...)
		st.zc = nil
	}
	arm := func() {
		for _, l := range st.late {
			copy(l[0], l[1])
		}
		st.late = nil
		// the application goes on using the buffers it got back at an earlier flush: they are its own memory
		for _, z := range st.released {
			for i := range z {
				z[i] = '%'
			}
		}
		if failAtFlush >= 0 && *flushes >= failAtFlush && st.sc.FailWrite == nil {
			st.sc.FailWrite = &net.OpError{Op: "write", Net: "tcp", Err: syscall.EPIPE}
			ep.Fault("write-error")
		}
	}
	switch tp.Weighted("wop", []int{4, 4, 4, 2, 1, 1}) {
	case 5: // consecutive zero-copy sub-slices of one array, a small reserved write after each
		k := tp.Pick("zk", 4096, 5000, 8192)
		pieces := 2 + tp.Choose("zpieces", 2)
		arr := core.PatternBytes(wtag, k*pieces)
		pristine := append([]byte(nil), arr...)
		for j := 0; j < pieces; j++ {
			n, err := conn.WriteBinary(arr[j*k : (j+1)*k]) // cap reaches to the end of arr
			if err != nil || n != k {
				ep.Fail("C13.write", "WriteBinary(%d) returned %d, %v", k, n, err)
				return
			}
			st.pending = append(st.pending, pristine[j*k:(j+1)*k]...)
			buf, err := conn.Malloc(2)
			if err != nil || len(buf) != 2 {
				ep.Fail("C13.write", "Malloc(2) returned %dB, %v", len(buf), err)
				return
			}
			copy(buf, "\r\n")
			st.pending = append(st.pending, '\r', '\n')
		}
		st.zc = append(st.zc, arr)
		ep.Logf("op framed zero-copy writes %d x %d", pieces, k)
		ep.Probe("zero-copy-subslices")
		ep.Probe("zero-copy-write")
	case 0: // Malloc + fill
		n := pickN(tp, false)
		buf, err := conn.Malloc(n)
		ep.Logf("op Malloc(%d) -> %dB %v", n, len(buf), err)
		if err != nil || len(buf) != n {
			ep.Fail("C13.write", "Malloc(%d) returned %dB, %v", n, len(buf), err)
			return
		}
		d := core.PatternBytes(wtag, n)
		if n%2 == 1 {
			// a reserved region belongs to the caller until the flush: it is filled in later (a length prefix, a checksum)
			st.late = append(st.late, [2][]byte{buf, d})
			ep.Probe("malloc-filled-late")
		} else {
			copy(buf, d)
		}
		st.pending = append(st.pending, d...)
	case 1: // WriteBinary
		n := pickN(tp, false)
		d := core.PatternBytes(wtag, n)
		k, err := conn.WriteBinary(d)
		ep.Logf("op WriteBinary(%d) -> %d %v", n, k, err)
		if err != nil || k != n {
			ep.Fail("C13.write", "WriteBinary(%d) returned %d, %v", n, k, err)
			return
		}
		st.pending = append(st.pending, d...)
		if n >= 4096 {
			ep.Probe("zero-copy-write")
			st.zc = append(st.zc, d)
		} else {
			for i := range d { // copied: caller may reuse at once
				d[i] = '?'
			}
		}
	case 2: // Flush
		arm()
		err := conn.Flush()
		ep.Logf("op Flush -> %v", err)
		afterFlush(err, "Flush")
	case 3: // Write (flushes first, then writes directly)
		n := pickN(tp, false)
		d := core.PatternBytes(wtag, n)
		arm()
		k, err := conn.Write(d)
		ep.Logf("op Write(%d) -> %d %v", n, k, err)
		if err == nil && k != n {
			ep.Fail("C13.write", "Write(%d) returned %d, nil", n, k)
			return
		}
		st.pending = append(st.pending, d...)
		afterFlush(err, "Write")
	case 4: // ReadFrom
		n := pickN(tp, false)
		d := core.PatternBytes(wtag, n)
		r := &piecesReader{data: append([]byte(nil), d...), zeroes: tp.Choose("rfz", 3)}
		for i := 0; i < 6; i++ {
			r.sizes = append(r.sizes, 1+tp.Choose("rfsz", 5000))
		}
		arm()
		k, err := conn.(io.ReaderFrom).ReadFrom(r)
		ep.Logf("op ReadFrom(%d) -> %d %v", n, k, err)
		ep.Probe("readfrom")
		st.pending = append(st.pending, d...)
		if err != nil {
			afterFlush(err, "ReadFrom")
			return
		}
		if int(k) != n {
			ep.Fail("C13.write", "ReadFrom copied %d of %d bytes with nil error", k, n)
			return
		}
		// ReadFrom leaves data buffered; model keeps it pending until the next flush
	}
}

// ---- network.NewWriter: the buffered writer over a plain io.Writer (same node chain idea: copies below 4 KiB, links above) ----

type c13sink struct {
	data   []byte
	writes int
	failAt int // fail the failAt-th Write call (0: never)
	short  bool
}

func (k *c13sink) Write(p []byte) (int, error) {
	k.writes++
	if k.failAt > 0 && k.writes == k.failAt {
		if k.short && len(p) > 1 {
			k.data = append(k.data, p[:len(p)/2]...)
			return len(p) / 2, io.ErrShortWrite
		}
		return 0, fmt.Errorf("scripted sink error")
	}
	k.data = append(k.data, p...)
	return len(p), nil
}

func runC13NetWriter(ep *core.Episode) {
	tp := ep.Tape
	ep.Probe("netwriter")
	sink := &c13sink{}
	if tp.Chance("sinkfail", 1, 4) {
		sink.failAt = 1 + tp.Choose("sinkfailat", 12)
		sink.short = tp.Choose("sinkshort", 2) == 1
	}
	w := network.NewWriter(sink)
	var want []byte    // everything flushed successfully so far
	var pending []byte // written since the last flush
	var held [][]byte  // slices handed to WriteBinary: the caller keeps them unchanged until Flush
	var released [][]byte
	sizes := []int{1, 2, 10, 100, 1000, 3000, 4095, 4096, 4097, 5000, 8192, 20000}
	nops := 3 + tp.Choose("nwops", 60)
	tag := byte(1)
	flushes := 0
	for i := 0; i < nops && !ep.Failed(); i++ {
		op := tp.Weighted("nwop", []int{4, 4, 2})
		if i == nops-1 {
			op = 2
		}
		switch op {
		case 0:
			n := sizes[tp.Choose("nwsz", len(sizes))]
			buf, err := w.Malloc(n)
			if err != nil || len(buf) != n {
				ep.Fail("C13.write", "netwriter op #%d: Malloc(%d) returned %d bytes, err %v", i, n, len(buf), err)
				return
			}
			d := core.PatternBytes(tag, n)
			tag++
			copy(buf, d)
			pending = append(pending, d...)
			ep.Logf("#%d Malloc(%d)", i, n)
		case 1:
			n := sizes[tp.Choose("nwsz", len(sizes))]
			if tp.Chance("nwempty", 1, 12) {
				n = 0
			}
			d := core.PatternBytes(tag, n)
			tag++
			held = append(held, d)
			k, err := w.WriteBinary(d)
			if err != nil || k != n {
				ep.Fail("C13.write", "netwriter op #%d: WriteBinary(%dB) = %d, %v", i, n, k, err)
				return
			}
			pending = append(pending, d...)
			if n >= 4096 {
				ep.Probe("netwriter-zero-copy")
			}
			ep.Logf("#%d WriteBinary(%d)", i, n)
		case 2:
			// the caller goes on using the slices it got back at earlier flushes: they are its own memory
			for _, z := range released {
				for j := range z {
					z[j] = '%'
				}
			}
			before := len(sink.data)
			err := w.Flush()
			flushes++
			got := sink.data[before:]
			ep.Logf("#%d Flush -> %v (%dB pending, %dB arrived)", i, err, len(pending), len(got))
			if err == nil {
				if !bytes.Equal(got, pending) {
					ep.Fail("C13.write", "netwriter op #%d: Flush delivered %dB, written since the last flush %dB (first difference at %d)", i, len(got), len(pending), firstDiff(got, pending))
					return
				}
			} else {
				if sink.failAt == 0 || sink.writes < sink.failAt {
					ep.Fail("C13.write", "netwriter op #%d: Flush failed without an injected error: %v", i, err)
					return
				}
				ep.Fault("sink-write-error")
				if !bytes.HasPrefix(pending, got) {
					ep.Fail("C13.write", "netwriter op #%d: a failed Flush delivered %dB that are not a prefix of what was written (first difference at %d)", i, len(got), firstDiff(got, pending))
					return
				}
			}
			want = append(want, got...)
			pending = pending[:0]
			if len(released) < 40 {
				released = append(released, held...)
			}
			held = held[:0]
		}
	}
	if !bytes.Equal(sink.data, want) {
		ep.Fail("C13.write", "netwriter: the sink holds %dB, the flushes accounted for %dB", len(sink.data), len(want))
		return
	}
	_ = held
	ep.Sig(fmt.Sprintf("nw:%d:%d:%v", nops, flushes, sink.failAt > 0))
	ep.Nontrivial = flushes > 0 && len(want) > 0
	ep.Sample = map[string]interface{}{"netwriter_ops": nops, "flushes": flushes, "bytes": len(want), "sink_fault": sink.failAt > 0}
}
