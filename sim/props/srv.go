// Package props holds the per-property simulated workloads and oracles.
package props

import (
	"context"
	"fmt"
	"io"
	"net"
	"runtime/debug"
	"strings"
	"time"

	"github.com/cloudwego/hertz/pkg/common/config"
	"github.com/cloudwego/hertz/pkg/common/hlog"
	"github.com/cloudwego/hertz/pkg/network"
	"github.com/cloudwego/hertz/pkg/network/standard"
	"github.com/cloudwego/hertz/pkg/route"

	"verifsim/core"
	"verifsim/pollstub"
	simstd "verifsim/standard"
	"verifsim/wire"
)

func init() {
	hlog.SetOutput(io.Discard)
	hlog.SetLevel(hlog.LevelFatal)
}

// Fn runs one episode of a property.
type Fn func(ep *core.Episode)

var Registry = map[string]Fn{}

// Meta describes a property check for evidence.
type Meta struct {
	Rule        string
	Real        []string
	Stub        []string
	Assumptions []string
	// RequiredProbes must be non-zero in a thorough run.
	RequiredProbes []string
}

var Metas = map[string]Meta{}

// SrvOpts configures a simulated server.
type SrvOpts struct {
	Stream      bool
	BufSize     int
	MaxBody     int // 0: leave default (4 MiB)
	DisableNorm bool
	ReadTimeout time.Duration
	IdleTimeout time.Duration
	Configure   func(o *config.Options)
	// ReturnToTransport: a transporter whose name is not "standard" keeps IdleTimeout == 0, so the
	// HTTP/1 loop returns to the transport after every request; the harness re-enters
	// Engine.Serve whenever the connection is readable again (what netpoll's OnRequest does).
	ReturnToTransport bool
	// SenseDisconnect: what the standard transport does with WithSenseClientDisconnection(true):
	// the connection is wrapped in standard.NewStatefulConn and a second goroutine blocks in a
	// read while the handler runs (the wrapper and that goroutine are hertz code; only the
	// three-line "cancel unless timeout" callback of transport.serve is reproduced here).
	SenseDisconnect bool
}

// Srv is the real route.Engine on a listener-less stub transporter; every
// connection is served by the real Engine.Serve on the real standard.Conn over a SimConn.
type Srv struct {
	ep  *core.Episode
	Net *core.Net
	Eng *route.Engine
	Opt SrvOpts
}

func NewSrv(ep *core.Episode, nw *core.Net, o SrvOpts) *Srv {
	opts := config.NewOptions(nil)
	opts.TransporterNewer = simstd.NewStub
	opts.StreamRequestBody = o.Stream
	opts.ReadTimeout = o.ReadTimeout
	opts.IdleTimeout = o.IdleTimeout
	opts.DisableHeaderNamesNormalizing = o.DisableNorm
	opts.DisablePrintRoute = true
	if o.MaxBody != 0 {
		opts.MaxRequestBodySize = o.MaxBody
	}
	if o.BufSize == 0 {
		o.BufSize = 4096
	}
	opts.ReadBufferSize = o.BufSize
	if o.ReturnToTransport {
		opts.TransporterNewer = pollstub.NewStub
		opts.IdleTimeout = 0
	}
	if o.Configure != nil {
		o.Configure(opts)
	}
	eng := route.NewEngine(opts)
	return &Srv{ep: ep, Net: nw, Eng: eng, Opt: o}
}

// Start must be called after routes are registered.
func (s *Srv) Start() {
	if err := s.Eng.Init(); err != nil {
		panic("harness: engine init: " + err.Error())
	}
	if err := s.Eng.MarkAsRunning(); err != nil {
		panic("harness: engine run: " + err.Error())
	}
}

// SrvConn is one simulated connection to the server.
type SrvConn struct {
	Name      string
	A, B      *core.SimConn // A: server end, B: peer (actor) end
	Task      *core.Task
	Err       error
	Returned  bool
	PanicVal  interface{}
	PanicStk  string
	Rx        []byte // everything the server wrote, as received by the peer
	Serves    int    // how often Engine.Serve was entered for this connection
	Cancelled bool   // SenseDisconnect: the connection context was cancelled by the detecting read
}

// Connect creates a connection and the task that serves it.
func (s *Srv) Connect(name string) *SrvConn {
	a, b := s.Net.NewPair(name)
	a.Out.Auto = true // peer is a scripted actor
	c := &SrvConn{Name: name, A: a, B: b}
	c.Task = s.ep.S.Go(name+".srv", func() {
		defer func() {
			if r := recover(); r != nil {
				c.PanicVal = r
				c.PanicStk = string(debug.Stack())
				a.Close()
			}
		}()
		var conn network.Conn = standard.NewVerifConn(a, s.Opt.BufSize)
		ctx := context.Background()
		if s.Opt.SenseDisconnect && !s.Opt.ReturnToTransport {
			cctx, cancel := context.WithCancel(ctx)
			defer cancel()
			ctx = cctx
			conn = standard.NewStatefulConn(conn, func(err error) {
				if ne, ok := err.(net.Error); ok && ne.Timeout() {
					return
				}
				c.Cancelled = true
				cancel()
			})
		}
		for {
			c.Serves++
			c.Err = s.Eng.Serve(ctx, conn)
			if !s.Opt.ReturnToTransport || c.Err != nil || a.IsClosed() {
				break
			}
			// back in the "transport": wait until there is something to read, then serve again
			if _, err := conn.Peek(1); err != nil {
				conn.Close()
				break
			}
		}
		c.Returned = true
	})
	return c
}

// Pump moves received bytes into Rx.
func (c *SrvConn) Pump() {
	if b := c.B.Recv(); len(b) > 0 {
		c.Rx = append(c.Rx, b...)
	}
}

// PanicInHertz reports whether the recorded panic's innermost non-runtime frame is hertz code.
func PanicInHertz(stk string) bool {
	lines := strings.Split(stk, "\n")
	seenPanic := false
	for _, l := range lines {
		if strings.HasPrefix(l, "panic(") {
			seenPanic = true
			continue
		}
		if !seenPanic || strings.HasPrefix(l, "\t") || l == "" {
			continue
		}
		if strings.HasPrefix(l, "runtime.") || strings.HasPrefix(l, "runtime/") {
			continue
		}
		return strings.HasPrefix(l, "github.com/cloudwego/hertz/")
	}
	return false
}

// panicTop returns a short description of where a panic happened.
func panicTop(stk string) string {
	lines := strings.Split(stk, "\n")
	seenPanic := false
	for _, l := range lines {
		if strings.HasPrefix(l, "panic(") {
			seenPanic = true
			continue
		}
		if !seenPanic || strings.HasPrefix(l, "\t") || l == "" {
			continue
		}
		if strings.HasPrefix(l, "runtime.") {
			continue
		}
		if i := strings.LastIndexByte(l, '('); i > 0 {
			l = l[:i]
		}
		return l
	}
	return "?"
}

// CheckPanic turns a panic on a served connection into a violation (hertz
// frame on top) or into an infrastructure failure (harness frame on top).
func CheckPanic(ep *core.Episode, prop string, c *SrvConn) bool {
	if c.PanicVal == nil {
		return false
	}
	if PanicInHertz(c.PanicStk) {
		ep.Fail(prop+".panic:"+shortFunc(panicTop(c.PanicStk)), "panic in hertz while serving %s: %v at %s", c.Name, c.PanicVal, panicTop(c.PanicStk))
	} else {
		ep.Infra = fmt.Sprintf("harness panic: %v\n%s", c.PanicVal, c.PanicStk)
	}
	return true
}

// Send is one scripted transmission of the peer.
type Send struct {
	// Kind: "" (data), "fin" (half-close after everything queued), "rst"
	// (abort once everything queued so far has been delivered)
	Kind string
	Data []byte
	// AfterResps: number of final responses that must have been received first.
	AfterResps int
	// AfterContinues: number of "100 Continue" interim responses that must have been received first.
	AfterContinues int
	Delay          time.Duration
	// WhenQuiet: instead of counting responses, wait until the server has consumed
	// everything sent so far and is blocked waiting for more input
	WhenQuiet bool
	// Mark, if set, receives the number of bytes received from the server at the moment of sending
	Mark   *int
	Bounds []int // structural boundaries inside Data (relative)
	Label  string
}

// Client is a scripted HTTP client actor (a state machine, not a goroutine).
type Client struct {
	ep      *core.Episode
	C       *SrvConn
	Sends   []Send
	next    int
	Methods []string // request methods in order, for response framing
	// parsed so far
	Resps     []*wire.Msg
	RespEnds  []int
	Continues int
	off       int
	ParseErr  error
	// CloseWhenDone: FIN once everything was sent and all responses arrived
	// (or the server closed).
	CloseWhenDone bool
	// FinWhenQuiet: FIN as soon as everything was sent and delivered and the server waits for more
	FinWhenQuiet bool
	// NoInterim: a 100 status is an ordinary final response (no Expect: 100-continue in play)
	NoInterim    bool
	finSent      bool
	pendingTimer bool
	sentBytes    int
}

func NewClient(ep *core.Episode, c *SrvConn) *Client {
	cl := &Client{ep: ep, C: c, CloseWhenDone: true}
	ep.S.AddSource(cl)
	return cl
}

// Parse consumes newly received bytes with the strict reader.
func (cl *Client) Parse() {
	cl.C.Pump()
	for cl.ParseErr == nil && cl.off < len(cl.C.Rx) {
		method := "GET"
		if len(cl.Resps) < len(cl.Methods) {
			method = cl.Methods[len(cl.Resps)]
		}
		m, n, err := wire.ParseResponse(cl.C.Rx[cl.off:], method, cl.C.B.PeerClosedWrite())
		if err == wire.ErrIncomplete {
			return
		}
		if err != nil {
			if pe, ok := err.(*wire.ParseError); ok {
				pe.Off += cl.off
			}
			cl.ParseErr = err
			return
		}
		cl.off += n
		if m.Status == 100 && !cl.NoInterim {
			cl.Continues++
			continue
		}
		cl.Resps = append(cl.Resps, m)
		cl.RespEnds = append(cl.RespEnds, cl.off)
	}
}

// SetOffset marks the first n received bytes as decoded.
func (cl *Client) SetOffset(n int) { cl.off = n }

// Leftover returns received bytes not accounted for by complete responses.
func (cl *Client) Leftover() []byte { return cl.C.Rx[cl.off:] }

func (cl *Client) AllSent() bool { return cl.next >= len(cl.Sends) }

func (cl *Client) Enabled(add func(core.Event)) {
	cl.Parse()
	if cl.next < len(cl.Sends) {
		s := cl.Sends[cl.next]
		gate := len(cl.Resps) >= s.AfterResps && cl.Continues >= s.AfterContinues
		if s.WhenQuiet {
			gate = cl.next == 0 || (cl.C.A.ReaderParked() && cl.C.A.InflightTo() == 0)
		}
		if gate && !cl.C.B.IsClosed() {
			i := cl.next
			if s.Kind == "rst" && cl.C.A.InflightTo() > 0 {
				return
			}
			if s.Kind == "fin" || s.Kind == "rst" {
				kind := s.Kind
				add(core.Event{Key: fmt.Sprintf("peer-%s %s #%d", kind, cl.C.Name, i), Weight: 20, Apply: func() {
					fire := func() {
						if kind == "fin" {
							cl.finSent = true
							cl.C.B.CloseWrite()
						} else {
							cl.C.B.Reset()
						}
						cl.ep.S.Poke()
					}
					cl.next++
					if s.Delay > 0 {
						cl.pendingTimer = true
						time.AfterFunc(s.Delay, func() { cl.pendingTimer = false; fire() })
					} else {
						fire()
					}
				}})
				return
			}
			add(core.Event{Key: fmt.Sprintf("send %s #%d %s", cl.C.Name, i, s.Label), Weight: 20, Apply: func() {
				if s.Mark != nil {
					cl.C.Pump()
					*s.Mark = len(cl.C.Rx)
				}
				base := cl.sentBytes
				for _, b := range s.Bounds {
					cl.C.A.In.Boundaries = append(cl.C.A.In.Boundaries, base+b)
				}
				cl.C.B.Send(s.Data, s.Delay)
				cl.sentBytes += len(s.Data)
				cl.next++
			}})
		}
		return
	}
	if cl.FinWhenQuiet && !cl.finSent && !cl.pendingTimer && !cl.C.B.IsClosed() && cl.C.A.InflightTo() == 0 && cl.C.A.ReaderParked() {
		add(core.Event{Key: "peer-fin-quiet " + cl.C.Name, Weight: 20, Apply: func() {
			cl.finSent = true
			cl.C.B.CloseWrite()
		}})
		return
	}
	if cl.CloseWhenDone && !cl.finSent && !cl.C.B.IsClosed() &&
		(len(cl.Resps) >= len(cl.Methods) || cl.C.B.PeerClosedWrite()) {
		add(core.Event{Key: "peer-fin " + cl.C.Name, Weight: 20, Apply: func() {
			cl.finSent = true
			cl.C.B.CloseWrite()
		}})
	}
}

func stackString() string { return string(debug.Stack()) }

// shortFunc turns "github.com/cloudwego/hertz/pkg/protocol.(*Cookie).ParseBytes" into "protocol.(*Cookie).ParseBytes".
func shortFunc(f string) string {
	if i := strings.LastIndexByte(f, '/'); i >= 0 {
		f = f[i+1:]
	}
	return f
}
