package props

import (
	"fmt"
	"strings"

	"verifsim/core"
	"verifsim/wire"
)

// GenOpt selects which request shapes the generator may produce.
type GenOpt struct {
	NearMiss  bool // near-miss framing header names carrying misleading values
	CRNear    bool // framing names with a control byte in place of '-' (malformed: reject or ignore, never frame by it)
	Fold      bool // obs-folded header / trailer values (C02 only)
	ChunkExt  bool // chunk extensions
	Expect100 bool
	HTTP10    bool
	BigBodies bool // allow > 64 KiB
	MaxBody   int  // cap on generated body size (0: none)
	NoBodyGET bool // never give GET/HEAD a body
	ForceBody bool // always a framed body on a body-carrying method
	Hostile   bool // bodies may consist of bytes that look like chunk framing + a request
}

// HostileUnit is body content that, if ever parsed as framing, reads as
// "last chunk, end of trailers, then a complete request".
func HostileUnit(idx int) string {
	return fmt.Sprintf("0\r\n\r\nPOST /smuggled-%d HTTP/1.1\r\nHost: evil\r\nContent-Length: 0\r\n\r\n", idx)
}

// HostileBody builds n bytes out of repeated hostile units.
func HostileBody(idx, n int) []byte {
	u := HostileUnit(idx)
	b := make([]byte, 0, n+len(u))
	for len(b) < n {
		b = append(b, u...)
	}
	return b[:n]
}

// GenReq is a generated request with ground truth.
type GenReq struct {
	M         *wire.Msg
	Expect100 bool
	Bytes     []byte
	HeadLen   int   // offset of the end of the header block
	Bounds    []int // structural boundaries
	Close     bool  // asks the server to close afterwards
	// ExpHeaders: the generic header list hertz is expected to expose in order
	// (everything except the special-cased fields), names as on the wire.
	ExpHeaders []wire.Header
	Host, CT   string
	UA         string
	ExpTrailer []wire.Header
	HasFold    bool
	Framed     bool // carries Content-Length or Transfer-Encoding
	Hostile    bool
	// Malformed: carries a header whose name is not a token (a control byte where
	// the '-' of a framing name would be). A server may reject the request, or take the
	// line for an ordinary field; it must not let it decide where the request ends.
	Malformed bool
}

var bodySizes = []int{0, 1, 2, 7, 100, 1000, 4095, 4096, 4097, 8191, 8192, 8193, 12000, 65537, 600000}

var methodsBody = []string{"POST", "PUT", "PATCH", "DELETE", "OPTIONS", "PURGE", "M-SEARCH"}
var methodsBodyGET = append(append([]string(nil), methodsBody...), "GET") // values 0..6 as in methodsBody (recorded tapes)
var methodsAny = []string{"GET", "POST", "PUT", "HEAD", "DELETE", "OPTIONS", "PATCH", "PURGE", "M-SEARCH"}

var nearMissCL = []string{"Content-Lengt", "Content-Length2", "X-Content-Length", "Content_Length", "Content-Lengthh",
	"Content.Length", "Content~Length", "ContentLength", "Content-Length-", "Dontent-Length", "Content-Lengti", "Content+Length", "Content!Length", "Content|Length"}
var nearMissTE = []string{"Transfer-Encodin", "Transfer-Encoding-X", "Transfer_Encoding", "X-Transfer-Encoding", "Transfer.Encoding", "Uransfer-Encoding", "TransferEncoding", "Transfer-Encodingg", "Tran\u017ffer-Encoding"}

var hdrNames = []string{"X-A", "x-b", "Accept", "X-Long-Header-Name", "ACCEPT-LANGUAGE", "x-forwarded-for", "Cache-Control", "X-A", "Referer", "If-None-Match", "te", "Via"}
var hdrVals = []string{"1", "v", "a, b", "text/html; q=0.9", "x=y; z", "0", "chunked", "close-not", "12345678901234567890", "a:b", "inner  spaces", ""}

// mixCase flips the case of name letters according to tape bits.
func mixCase(tp *core.Tape, s string) string {
	mode := tp.Weighted("case", []int{6, 1, 1, 2})
	switch mode {
	case 0:
		return s
	case 1:
		return strings.ToUpper(s)
	case 2:
		return strings.ToLower(s)
	}
	b := []byte(s)
	for i := range b {
		if tp.Choose("c", 2) == 1 {
			if b[i] >= 'a' && b[i] <= 'z' {
				b[i] -= 32
			} else if b[i] >= 'A' && b[i] <= 'Z' {
				b[i] += 32
			}
		}
	}
	return string(b)
}

func pickSize(tp *core.Tape, o GenOpt) int {
	var n int
	switch tp.Weighted("bsz", []int{5, 4, 1}) {
	case 0:
		n = tp.Choose("small", 64)
	case 1:
		n = bodySizes[tp.Choose("bnd", len(bodySizes))]
	default:
		n = tp.Choose("mid", 20000)
	}
	if !o.BigBodies && n > 20000 {
		n = 12000
	}
	if o.MaxBody > 0 && n > o.MaxBody {
		n = o.MaxBody
	}
	return n
}

func splitChunks(tp *core.Tape, total int) []int {
	if total == 0 {
		return nil
	}
	var out []int
	left := total
	for left > 0 && len(out) < 12 {
		var k int
		switch tp.Weighted("csz", []int{3, 3, 2}) {
		case 0:
			k = left
		case 1:
			k = bodySizes[1+tp.Choose("cb", len(bodySizes)-1)]
		default:
			k = 1 + tp.Choose("cu", left)
		}
		if k > left {
			k = left
		}
		out = append(out, k)
		left -= k
	}
	if left > 0 {
		out = append(out, left)
	}
	return out
}

// foldValue renders "K: v1<CRLF><SP|HT>v2" and returns the raw line and the
// value an RFC 7230 recipient that accepts obs-fold must see (fold -> single SP).
func foldValue(tp *core.Tape, k string) (raw, val string) {
	parts := 2 + tp.Choose("foldn", 2)
	words := []string{"alpha", "beta", "gamma", "d", "ee"}
	var sb strings.Builder
	sb.WriteString(k + ": ")
	var vs []string
	for i := 0; i < parts; i++ {
		w := words[tp.Choose("foldw", len(words))]
		vs = append(vs, w)
		if i > 0 {
			sb.WriteString("\r\n")
			if tp.Choose("foldc", 2) == 0 {
				sb.WriteString(" ")
			} else {
				sb.WriteString("\t")
			}
		}
		sb.WriteString(w)
	}
	sb.WriteString("\r\n")
	return sb.String(), strings.Join(vs, " ")
}

// GenRequest builds request number idx of a connection.
func GenRequest(tp *core.Tape, idx int, last bool, o GenOpt) *GenReq {
	g := &GenReq{}
	m := &wire.Msg{Proto: "HTTP/1.1"}
	g.M = m
	hasBody := tp.Chance("hasbody", 6, 10) || o.ForceBody
	if hasBody {
		if o.ForceBody && !o.NoBodyGET {
			m.Method = methodsBodyGET[tp.Choose("method", len(methodsBodyGET))]
		} else if o.NoBodyGET || o.ForceBody {
			m.Method = methodsBody[tp.Choose("method", len(methodsBody))]
		} else {
			m.Method = methodsAny[tp.Choose("method", len(methodsAny))]
		}
	} else {
		m.Method = methodsAny[tp.Choose("method", len(methodsAny))]
	}
	m.Target = fmt.Sprintf("/r%d", idx)
	switch tp.Choose("target", 5) {
	case 1:
		m.Target += "/sub/path"
	case 2:
		m.Target += "?a=1&b=two"
	case 3:
		m.Target += "/x%20y?q=%2F&e="
	case 4:
		m.Target += "?" + strings.Repeat("k=v&", 1+tp.Choose("qn", 40))
	}
	if o.HTTP10 && tp.Chance("http10", 1, 8) {
		m.Proto = "HTTP/1.0"
	}
	g.Host = "example.com"
	m.Headers = append(m.Headers, wire.Header{K: mixCase(tp, "Host"), V: g.Host})
	nh := tp.Choose("nhdr", 9)
	for i := 0; i < nh; i++ {
		k := hdrNames[tp.Choose("hk", len(hdrNames))]
		v := hdrVals[tp.Choose("hv", len(hdrVals))]
		if o.Fold && tp.Chance("fold", 1, 4) {
			raw, val := foldValue(tp, k)
			m.Headers = append(m.Headers, wire.Header{K: k, V: val, Raw: raw})
			g.HasFold = true
			continue
		}
		m.Headers = append(m.Headers, wire.Header{K: k, V: v})
	}
	if tp.Chance("ua", 1, 4) {
		g.UA = "sim/1.0"
		m.Headers = append(m.Headers, wire.Header{K: mixCase(tp, "User-Agent"), V: g.UA})
	}
	if hasBody {
		m.Body = core.PatternBytes(byte(idx*7+1), pickSize(tp, o))
		if o.Hostile && tp.Chance("hostile", 1, 3) {
			m.Body = HostileBody(idx, len(m.Body))
			g.Hostile = true
		}
		if tp.Chance("ct", 1, 2) {
			g.CT = "application/octet-stream"
			m.Headers = append(m.Headers, wire.Header{K: mixCase(tp, "Content-Type"), V: g.CT})
		}
		if tp.Chance("chunked", 4, 10) && m.Proto == "HTTP/1.1" {
			m.Chunked = true
			m.ChunkSizes = splitChunks(tp, len(m.Body))
			m.HexUpper = tp.Chance("hexup", 1, 3)
			m.HexZeros = tp.Weighted("hexz", []int{8, 1, 1})
			if o.ChunkExt && tp.Chance("cext", 1, 6) {
				m.ChunkExts = make([]string, len(m.ChunkSizes))
				for i := range m.ChunkExts {
					if tp.Choose("cexti", 2) == 1 {
						m.ChunkExts[i] = "ext=1"
					}
				}
			}
			m.TEName = mixCase(tp, "Transfer-Encoding")
			nt := tp.Weighted("ntrail", []int{6, 2, 1, 1, 1})
			unannounced := nt == 4
			if unannounced {
				nt = 1 // (added weight) a trailer field that no Trailer header announces: legal, the announcement is a SHOULD
			}
			if nt > 0 {
				names := []string{"X-Checksum", "X-Trail-B"}[:nt%3]
				if nt == 3 {
					// (added weight) a field name that begins like a last-chunk line: any token is a legal field name
					names = []string{[]string{"0-Sum", "0", "00-X", "0x"}[idx%4]}
				}
				if !unannounced {
					m.Headers = append(m.Headers, wire.Header{K: "Trailer", V: strings.Join(names, ", ")})
				}
				for i, n := range names {
					if o.Fold && tp.Chance("tfold", 1, 4) {
						raw, val := foldValue(tp, n)
						m.Trailers = append(m.Trailers, wire.Header{K: n, V: val, Raw: raw})
						g.HasFold = true
					} else {
						m.Trailers = append(m.Trailers, wire.Header{K: n, V: fmt.Sprintf("t%d-%d", idx, i)})
					}
				}
				g.ExpTrailer = m.Trailers
				if unannounced {
					g.ExpTrailer = nil // hertz keeps the announced trailer fields only; the request itself is unaffected
				}
			}
		} else {
			m.CLName = mixCase(tp, "Content-Length")
		}
		if o.Expect100 && tp.Chance("expect", 1, 6) && m.Proto == "HTTP/1.1" {
			g.Expect100 = true
			m.Headers = append(m.Headers, wire.Header{K: "Expect", V: "100-continue"})
		}
	} else {
		m.NoFraming = true
		if tp.Chance("cl0", 1, 5) {
			m.NoFraming = false // explicit Content-Length: 0
			m.CLName = mixCase(tp, "Content-Length")
		}
	}
	if o.NearMiss && tp.Chance("nearmiss", 1, 3) {
		n := 1 + tp.Choose("nmn", 2)
		for i := 0; i < n; i++ {
			var h wire.Header
			if tp.Choose("nmkind", 2) == 0 {
				h = wire.Header{K: nearMissCL[tp.Choose("nmcl", len(nearMissCL))], V: fmt.Sprint(tp.Pick("nmv", 0, 1, 5, 17, 4096, 100000))}
			} else {
				h = wire.Header{K: nearMissTE[tp.Choose("nmte", len(nearMissTE))], V: "chunked"}
			}
			at := tp.Choose("nmat", len(m.Headers)+1)
			m.Headers = append(m.Headers[:at], append([]wire.Header{h}, m.Headers[at:]...)...)
		}
	}
	if o.CRNear && tp.Chance("crnear", 1, 12) {
		nm := []string{"Content\rLength", "Transfer\rEncoding", "content\rlength"}[tp.Choose("crname", 3)]
		v := fmt.Sprint(tp.Pick("crv", 0, 3, 17, 4096))
		if strings.HasPrefix(strings.ToLower(nm), "transfer") {
			v = "chunked"
		}
		at := tp.Choose("crat", len(m.Headers)+1)
		h := wire.Header{K: nm, V: v, Raw: nm + ": " + v + "\r\n"}
		m.Headers = append(m.Headers[:at], append([]wire.Header{h}, m.Headers[at:]...)...)
		g.Malformed = true
	}
	if m.Proto == "HTTP/1.0" && !last {
		m.Headers = append(m.Headers, wire.Header{K: "Connection", V: "keep-alive"})
	}
	if last && tp.Chance("close", 1, 2) {
		g.Close = true
		if m.Proto == "HTTP/1.1" {
			m.Headers = append(m.Headers, wire.Header{K: mixCase(tp, "Connection"), V: "close"})
		}
	} else if last && m.Proto == "HTTP/1.0" {
		g.Close = true
	}
	if !m.NoFraming {
		at := tp.Choose("fat", len(m.Headers)+1)
		var fh wire.Header
		if m.Chunked {
			fh = wire.Header{K: m.TEName, V: "chunked"}
		} else {
			fh = wire.Header{K: m.CLName, V: fmt.Sprint(len(m.Body))}
		}
		m.Headers = append(m.Headers[:at], append([]wire.Header{fh}, m.Headers[at:]...)...)
		m.NoFraming = true
		g.Framed = true
	}
	g.Bytes, g.Bounds = m.Encode()
	// find end of header block
	g.HeadLen = strings.Index(string(g.Bytes), "\r\n\r\n") + 4
	// expected generic header list
	for _, h := range m.Headers {
		switch wire.LowerASCII(h.K) {
		case "host", "user-agent", "content-type", "content-length", "transfer-encoding", "trailer":
			continue
		case "connection":
			if h.V == "close" {
				continue
			}
		}
		g.ExpHeaders = append(g.ExpHeaders, wire.Header{K: h.K, V: h.V})
	}
	return g
}

// NormName applies the documented header-name normalisation: first letter and
// letters after '-' upper-cased, the rest lower-cased.
func NormName(s string) string {
	b := []byte(s)
	up := true
	for i, c := range b {
		if up && c >= 'a' && c <= 'z' {
			b[i] = c - 32
		} else if !up && c >= 'A' && c <= 'Z' {
			b[i] = c + 32
		}
		up = c == '-'
	}
	return string(b)
}
