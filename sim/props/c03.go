package props

import (
	"bytes"
	"context"
	"fmt"
	"io"
	"os"
	"path/filepath"
	"sort"
	"strings"
	"sync"
	"time"

	"github.com/cloudwego/hertz/pkg/app"
	"github.com/cloudwego/hertz/pkg/app/middlewares/server/recovery"
	"github.com/cloudwego/hertz/pkg/common/config"
	"github.com/cloudwego/hertz/pkg/protocol"
	pclient "github.com/cloudwego/hertz/pkg/protocol/client"
	"github.com/cloudwego/hertz/pkg/protocol/http1"

	"verifsim/core"
	"verifsim/wire"
)

func init() {
	Registry["C03"] = RunC03
	Metas["C03"] = Meta{
		Rule: "episode = a stream of 1..3 valid requests (query, cookies, Range/If-Modified-Since on a static-file route incl. an empty file, multipart form, chunked+Trailer, bodies around the configured limit) with 1..4 structure-aware mutations (byte flip/insert/delete/duplicate at method, target, version, header name, colon, value, CR, LF, chunk-size, chunk CRLF, trailer; hostile tokens spliced into Trailer/target/Cookie/Range/date/boundary/Content-Length), optional truncation + FIN/RST at any offset, delivered under seeded fragmentation to the real server (with and without recovery middleware, buffered and streaming); a probe handler runs every request-side parser on what arrived. Oracles: no panic escapes Engine.Serve; everything written is a sequence of complete well-formed responses; a parse-level rejection is exactly one 4xx with Connection: close, no handler, nothing after it, connection closed; body over the limit in buffered mode is always rejected. Non-trivial: >= 1 mutation or fault applied; distinct = abstract signature (mutation kinds x positions classes x outcome). Added later: a route-table mode (trailing-slash and fixed-path redirects, X-Forwarded-Prefix and request paths around the 128-byte stack buffer of CleanPath), a huge-body mode (default limit, one body around/above 512 KiB), obs-folded Trailer values, trailer names that read like a last-chunk line with reads ending 1 and 2 bytes into the trailer section, and the oracle that a non-numeric Content-Length without Transfer-Encoding is answered with 400. Later still: hostile Connection lists on HTTP/1.0 and HTTP/1.1 requests and responses.",
		Real: []string{"http1.Server.Serve/writeErrorResponse", "route.Engine.ServeHTTP", "req header/body parsers", "protocol.URI/Args/Cookie/Trailer/multipart parsers", "app.FS handler (ParseByteRange, ParseHTTPDate)", "recovery middleware", "standard.Conn"},
		Stub: []string{"TCP (SimConn)", "peer (scripted actor)", "transporter accept loop (stub)", "clock (synctest)", "file system: real directory tree, no fault injection"},
		Assumptions: []string{
			"only the wire paths that feed the public parsers are decided here (DESIGN.md 3 C03); calling parsers directly with arbitrary strings is input fuzzing and is not claimed",
			"client side: hostile responses (mutated, truncated, reset) read by the real HostClient incl. redirects, Set-Cookie and Location parsing; only panics and hangs are judged there",
			"a parse-level rejection is recognised as: last response on the connection is 400/413/408, no handler ran for it and Engine.Serve returned a non-nil error",
		},
		RequiredProbes: []string{"mut-flip", "mut-insert", "mut-delete", "mut-dup", "mut-token", "truncate", "rst", "rejected", "too-large", "too-large-multipart", "too-large-chunked", "hostile-chunk-size", "fs-route", "multipart", "cookie", "trailer", "recovery-engine", "default-engine", "client-side", "stall-mid-request", "too-large-expect", "invalid-content-length", "trailer-zero-name", "huge-body", "router-mode", "route-request", "forwarded-prefix", "redirected", "http10-connection-list"},
	}
}

var (
	c03RootOnce sync.Once
	c03Root     string
)

func c03FSRoot() string {
	c03RootOnce.Do(func() {
		final := "/verif/.scratch/tree-c03-v1"
		if _, err := os.Stat(filepath.Join(final, "ready")); err == nil {
			c03Root = final
			return
		}
		os.MkdirAll("/verif/.scratch", 0o755)
		d, err := os.MkdirTemp("/verif/.scratch", "c03-build-")
		if err != nil {
			panic("harness: " + err.Error())
		}
		os.WriteFile(filepath.Join(d, "empty.txt"), nil, 0o644)
		os.WriteFile(filepath.Join(d, "a.txt"), []byte("0123456789"), 0o644)
		os.WriteFile(filepath.Join(d, "big.bin"), core.PatternBytes(9, 20000), 0o644)
		os.MkdirAll(filepath.Join(d, "dir"), 0o755)
		os.WriteFile(filepath.Join(d, "dir", "index.html"), []byte("<html>index</html>"), 0o644)
		os.WriteFile(filepath.Join(d, "ready"), []byte("1"), 0o644)
		if err := os.Rename(d, final); err != nil {
			os.RemoveAll(d)
		}
		c03Root = final
	})
	return c03Root
}

var hostileTokens = map[string][]string{
	"Trailer":           {"a,,b", ",", "a, ,b", ",a", "Content-Length", "", " ", "a,", "Foo,\r\n c", "a,\r\n\tco", "Foo, \r\n conten", "X-T,\r\n c,", "c"},
	"Cookie":            {"a=b; ;c=d", ";", "=; =", "a=b;; SameSite=", "a=\"b", "; SameSite=", "a"},
	"Range":             {"bytes=-1", "bytes=9-1", "bytes=-0", "bytes=0-", "bytes=", "bytes=-", "bytes=a-b", "bytes=99999999999999999999-", "bytes=0-0,1-1", "=", "bytes=-99999999999999999999", "bytes=5-99999999999999999999"},
	"If-Modified-Since": {"Mon", "", "Sat, 01 Jan 2000 00:00:00 GMT", "0", "Sat, 99 Jan 2000 99:99:99 GMT", "Sat, 01 Jan 99999 00:00:00 GMT"},
	"Content-Type":      {"multipart/form-data; boundary=", "multipart/form-data; boundary=\"", "multipart/form-data", "multipart/form-data; boundary=;", "multipart/form-data;boundary=xyz"},
	"Content-Length":    {"-1", "99999999999999999999", "0x10", "1e3", "+5", " 5", "5 5", ""},
	"Host":              {"", "a:b:c", "[::1", "a b", "\x00"},
	"Accept-Encoding":   {"gzip", "gzip, deflate", ",", "gzip;q=0"},
	"Connection":        {",keep-alive", "close", " , close", "keep-alive, ,", ",", "", "Keep-Alive, ,Upgrade", " ", "close,", ",,"},
}

var hostileTargets = []string{"a:b", "//", "/..", "http://", "http:/x", ":", "*", "/%", "/%zz", "/%2", "?", "#", "/a?%", "/\x00", "h://u@:p@/", "/a b", "/fs/../../etc/passwd", "/fs/%2e%2e/", "/fs/empty.txt", "/fs//a.txt", "https://[::1/", "/?a=%&=&&b", "#?x", "#a?b#c", "?#?", "/#?"}

type mutation struct {
	kind string
	at   int
}

// mutate applies 1..4 structure-aware mutations to the stream.
func mutate(tp *core.Tape, ep *core.Episode, stream []byte, bounds []int) ([]byte, []string) {
	n := 1 + tp.Choose("nmut", 4)
	var desc []string
	out := append([]byte(nil), stream...)
	for i := 0; i < n; i++ {
		if len(out) == 0 {
			break
		}
		// position: near a structural boundary (2/3) or anywhere
		pos := tp.Choose("mpos", len(out))
		if len(bounds) > 0 && tp.Choose("mnear", 3) > 0 {
			pos = bounds[tp.Choose("mb", len(bounds))] + tp.Choose("md", 7) - 4
			if pos < 0 {
				pos = 0
			}
			if pos >= len(out) {
				pos = len(out) - 1
			}
		}
		hostile := []byte{0, ' ', ':', '\r', '\n', ';', ',', '%', 0x80, 0xff, '\t', '=', '"', '-', '0', 'f', '/'}
		switch tp.Choose("mkind", 4) {
		case 0:
			if tp.Choose("flipmode", 2) == 0 {
				out[pos] ^= 1 << uint(tp.Choose("bit", 8))
			} else {
				out[pos] = hostile[tp.Choose("hb", len(hostile))]
			}
			ep.Probe("mut-flip")
			desc = append(desc, fmt.Sprintf("flip@%d", pos))
		case 1:
			b := hostile[tp.Choose("hb", len(hostile))]
			out = append(out[:pos], append([]byte{b}, out[pos:]...)...)
			ep.Probe("mut-insert")
			desc = append(desc, fmt.Sprintf("insert(%q)@%d", b, pos))
		case 2:
			k := 1 + tp.Choose("dlen", 3)
			if pos+k > len(out) {
				k = len(out) - pos
			}
			out = append(out[:pos], out[pos+k:]...)
			ep.Probe("mut-delete")
			desc = append(desc, fmt.Sprintf("delete(%d)@%d", k, pos))
		case 3:
			k := 1 + tp.Choose("duplen", 40)
			if pos+k > len(out) {
				k = len(out) - pos
			}
			dup := append([]byte(nil), out[pos:pos+k]...)
			out = append(out[:pos+k], append(dup, out[pos+k:]...)...)
			ep.Probe("mut-dup")
			desc = append(desc, fmt.Sprintf("dup(%d)@%d", k, pos))
		}
	}
	return out, desc
}

func RunC03(ep *core.Episode) {
	tp := ep.Tape
	// one draw selects the scenario; the values 0..3 keep the meaning they had when this was a 1-in-4
	// chance (recorded witness tapes): 3 = client side; 4, 5 = server with a static route table
	side := tp.Choose("side", 10)
	if ep.Param("client") != "off" && (side == 3 || side == 6 || side == 7 || side == 9) {
		runC03Client(ep)
		return
	}
	router := ep.Param("router") != "off" && (side == 4 || side == 5)
	huge := side == 8 // default body limit and one body beyond the transport's 512 KiB buffer-recycling threshold
	o := SrvOpts{BufSize: tp.Pick("bufsize", 4096, 8192)}
	if router {
		// the engine's own handling of paths that match no route exactly: trailing-slash and
		// fixed-path redirects clean the request path and the peer's X-Forwarded-Prefix
		fixed, extra, raw := tp.Choose("fixedpath", 2) == 1, tp.Choose("extraslash", 2) == 1, tp.Choose("rawpath", 2) == 1
		o.Configure = func(opts *config.Options) {
			opts.RedirectFixedPath, opts.RemoveExtraSlash, opts.UseRawPath = fixed, extra, raw
		}
		ep.Probe("router-mode")
	}
	o.Stream = tp.Chance("stream", 1, 3)
	o.MaxBody = 3000
	if huge {
		o.MaxBody = 4 << 20
		ep.Probe("huge-body")
	}
	if router || huge {
		// (later modes) read and idle deadlines, so that a peer that stops sending mid-request gets its 408
		o.ReadTimeout = 80 * time.Millisecond
		o.IdleTimeout = 10 * time.Second
	}
	withRecovery := tp.Choose("recovery", 2) == 1
	if withRecovery {
		ep.Probe("recovery-engine")
	} else {
		ep.Probe("default-engine")
	}
	nw := core.NewNet(ep)
	srv := NewSrv(ep, nw, o)
	if withRecovery {
		srv.Eng.Use(recovery.Recovery(recovery.WithRecoveryHandler(func(c context.Context, ctx *app.RequestContext, err interface{}, stack []byte) {
			ctx.AbortWithStatus(500)
		})))
	}
	handled := 0
	entered := 0
	anyToken := false
	// engine-level middleware: counts every request that reached Engine.ServeHTTP
	srv.Eng.Use(func(c context.Context, ctx *app.RequestContext) { entered++; ctx.Next(c) })
	useFS := ep.Param("fs") != "off" && tp.Chance("fsroute", 1, 4)
	if useFS {
		fs := &app.FS{Root: c03FSRoot(), AcceptByteRange: true, IndexNames: []string{"index.html"}, GenerateIndexPages: tp.Choose("genidx", 2) == 1, Compress: false,
			PathRewrite: app.NewPathSlashesStripper(1)}
		h := fs.NewRequestHandler()
		srv.Eng.GET("/fs/*filepath", func(c context.Context, ctx *app.RequestContext) { handled++; h(c, ctx) })
		srv.Eng.HEAD("/fs/*filepath", func(c context.Context, ctx *app.RequestContext) { handled++; h(c, ctx) })
		ep.Probe("fs-route")
		ep.LeakedGoroutines++
	}
	probe := func(c context.Context, ctx *app.RequestContext) {
		handled++
		// run every request-side parser on what arrived
		u := ctx.URI()
		_ = u.Path()
		_ = u.Host()
		_ = u.Scheme()
		_ = u.QueryString()
		_ = u.Hash()
		_ = u.FullURI()
		_ = u.LastPathSegment()
		_ = u.Username()
		ctx.QueryArgs().VisitAll(func(k, v []byte) {})
		_ = ctx.Query("a")
		_ = ctx.Cookie("a")
		ctx.Request.Header.VisitAllCookie(func(k, v []byte) {})
		ctx.Request.Header.VisitAll(func(k, v []byte) {})
		if o.Stream && ctx.Request.IsBodyStream() {
			ctx.Request.Body()
		}
		ctx.PostArgs().VisitAll(func(k, v []byte) {})
		_ = ctx.FormValue("f")
		if f, err := ctx.MultipartForm(); err == nil && f != nil {
			for range f.Value {
			}
		}
		_, _ = ctx.FormFile("file")
		ctx.Request.Header.Trailer().VisitAll(func(k, v []byte) {})
		_ = ctx.Request.Header.PeekRange()
		_ = ctx.ClientIP()
		_ = ctx.Request.BasicAuth
		var ck protocol.Cookie
		for _, v := range ctx.Request.Header.PeekAll("X-Set-Cookie") {
			_ = ck.ParseBytes(v)
			_ = ck.SameSite()
		}
		ctx.SetStatusCode(200)
		ctx.Response.SetBodyString(fmt.Sprintf("probe %d", handled))
	}
	if router {
		for _, r := range []string{"/tsr/", "/tsr/sub/", "/Fix/Path", "/plain", "/p/:id/", "/w/*rest"} {
			srv.Eng.GET(r, probe)
			srv.Eng.POST(r, probe)
		}
	} else {
		srv.Eng.Any("/*any", probe)
	}
	srv.Eng.NoRoute(probe)
	srv.Start()

	// base requests
	n := 1 + tp.Weighted("nreq", []int{4, 3, 1})
	var stream []byte
	var bounds []int
	var methods []string
	tooLargeAt := -1
	var reqStart []int
	zeroTrailer := false
	connTokAt := -1 // request carrying a hostile Connection list
	badCLAt := -1   // request carrying a syntactically invalid Content-Length (and no Transfer-Encoding)
	for i := 0; i < n; i++ {
		m := &wire.Msg{Proto: "HTTP/1.1", Method: "GET", Target: fmt.Sprintf("/p%d?a=1&b=%%20x&c", i)}
		m.Headers = []wire.Header{{K: "Host", V: "example.com"}}
		kind := tp.Choose("base", 6)
		switch kind {
		case 0: // plain GET with cookies
			m.Headers = append(m.Headers, wire.Header{K: "Cookie", V: "a=b; c=d"}, wire.Header{K: "X-Set-Cookie", V: "k=v; Path=/; SameSite=Lax; HttpOnly"})
			ep.Probe("cookie")
			m.NoFraming = true
		case 1: // static file with range/date
			m.Target = []string{"/fs/a.txt", "/fs/empty.txt", "/fs/big.bin", "/fs/dir/", "/fs/none"}[tp.Choose("fsfile", 5)]
			m.Headers = append(m.Headers, wire.Header{K: "Range", V: "bytes=0-3"}, wire.Header{K: "If-Modified-Since", V: "Sat, 01 Jan 2000 00:00:00 GMT"})
			if tp.Choose("fshead", 3) == 0 {
				m.Method = "HEAD"
			}
			m.NoFraming = true
		case 2: // urlencoded form
			m.Method = "POST"
			m.Headers = append(m.Headers, wire.Header{K: "Content-Type", V: "application/x-www-form-urlencoded"})
			m.Body = []byte("f=1&g=%41&h")
		case 3: // multipart
			m.Method = "POST"
			m.Headers = append(m.Headers, wire.Header{K: "Content-Type", V: "multipart/form-data; boundary=xyz"})
			m.Body = []byte("--xyz\r\nContent-Disposition: form-data; name=\"f\"\r\n\r\nv\r\n--xyz\r\nContent-Disposition: form-data; name=\"file\"; filename=\"a.txt\"\r\nContent-Type: text/plain\r\n\r\ncontent\r\n--xyz--\r\n")
			ep.Probe("multipart")
		case 4: // chunked with trailer
			m.Method = "POST"
			m.Chunked = true
			m.Body = core.PatternBytes(byte(i), 1+tp.Choose("cb", 300))
			m.ChunkSizes = splitChunks(tp, len(m.Body))
			m.Headers = append(m.Headers, wire.Header{K: "Trailer", V: "X-T"})
			m.Trailers = []wire.Header{{K: "X-T", V: "tv"}}
			if router || huge {
				// (drawn only in the modes added later) a trailer field whose name starts like a last-chunk line
				tn := []string{"0-Sum", "0", "00", "0x"}[tp.Choose("trailername", 4)]
				m.Headers[len(m.Headers)-1].V = tn
				m.Trailers = []wire.Header{{K: tn, V: "tv"}}
				zeroTrailer = true
				ep.Probe("trailer-zero-name")
			}
			ep.Probe("trailer")
		case 5: // body around the limit: plain, multipart or chunked
			m.Method = "POST"
			sz := tp.Pick("lim", 2999, 3000, 3001, 5000, 10)
			m.Body = core.PatternBytes(byte(i), sz)
			switch tp.Choose("limkind", 3) {
			case 1:
				if sz < 200 {
					break
				}
				m.Headers = append(m.Headers, wire.Header{K: "Content-Type", V: "multipart/form-data; boundary=xyz"})
				pre := "--xyz\r\nContent-Disposition: form-data; name=\"file\"; filename=\"a.bin\"\r\nContent-Type: application/octet-stream\r\n\r\n"
				post := "\r\n--xyz--\r\n"
				if fill := sz - len(pre) - len(post); fill > 0 {
					m.Body = []byte(pre + string(core.PatternBytes(byte(i), fill)) + post)
				}
				ep.Probe("too-large-multipart")
			case 2:
				m.Chunked = true
				m.ChunkSizes = splitChunks(tp, len(m.Body))
				ep.Probe("too-large-chunked")
			}
			if (router || huge) && !m.Chunked && tp.Choose("expectlarge", 2) == 1 {
				// (later modes only) the oversized body is announced with Expect: 100-continue
				m.Headers = append(m.Headers, wire.Header{K: "Expect", V: "100-continue"})
				ep.Probe("too-large-expect")
			}
			if len(m.Body) > 3000 && tooLargeAt < 0 && !huge {
				tooLargeAt = i
				ep.Probe("too-large")
			}
		}
		if huge && i == 0 {
			m = &wire.Msg{Proto: "HTTP/1.1", Method: "POST", Target: "/huge", Headers: []wire.Header{{K: "Host", V: "example.com"}}}
			m.Body = core.PatternBytes(7, tp.Pick("hugesz", 600000, 524287, 524288, 524289, 1<<20))
			if tp.Choose("hugechunked", 3) == 1 {
				m.Chunked = true
				m.ChunkSizes = []int{len(m.Body) / 2, len(m.Body) - len(m.Body)/2}
			}
			tooLargeAt = -1
		}
		if router && tp.Chance("route-req", 2, 3) {
			// a request that matches no route exactly; lengths sit around CleanPath's 128-byte stack buffer
			ep.Probe("route-request")
			if tooLargeAt == i {
				tooLargeAt = -1 // the request drawn above is replaced
			}
			lens := []int{0, 1, 2, 3, 126, 127, 128, 129, 130, 255, 256, 257, 1000}
			junk := func(n, style int) string {
				unit := []string{"a", "ab/", "../", "x//", "./y/", "%2e/"}[style%6]
				var sb strings.Builder
				for sb.Len() < n {
					sb.WriteString(unit)
				}
				return sb.String()[:n]
			}
			targets := []string{"/tsr", "/tsr/sub", "/fix/path", "/FIX/Path/", "/plain/", "//tsr", "/a/../tsr", "/p/7", "/w", "LONG", "LONG"}
			tgt := targets[tp.Choose("rtarget", len(targets))]
			if tgt == "LONG" {
				tgt = "/" + junk(lens[tp.Choose("plen", len(lens))], tp.Choose("pstyle", 6))
			}
			m = &wire.Msg{Proto: "HTTP/1.1", Method: []string{"GET", "POST"}[tp.Choose("rmeth", 2)], Target: tgt + []string{"", "?q=1"}[tp.Choose("rquery", 2)], NoFraming: true}
			m.Headers = []wire.Header{{K: "Host", V: "example.com"}}
			if tp.Chance("fwdprefix", 2, 3) {
				v := junk(lens[tp.Choose("fplen", len(lens))], tp.Choose("fpstyle", 6))
				if tp.Choose("fpslash", 2) == 1 {
					v = "/" + v
				}
				m.Headers = append(m.Headers, wire.Header{K: "X-Forwarded-Prefix", V: v})
				ep.Probe("forwarded-prefix")
			}
			if m.Method == "POST" {
				m.NoFraming = false
				m.Body = []byte("x=1")
			}
		}
		// hostile token spliced into a header value / the target
		if ep.Param("tokens") != "off" && tp.Chance("token", 1, 3) {
			ep.Probe("mut-token")
			anyToken = true
			if tp.Choose("tokwhere", 4) == 0 {
				m.Target = hostileTargets[tp.Choose("tgt", len(hostileTargets))]
				if tp.Choose("nohost", 2) == 1 {
					m.Headers = m.Headers[1:]
				}
			} else {
				names := []string{"Trailer", "Cookie", "Range", "If-Modified-Since", "Content-Type", "Host", "Accept-Encoding", "X-Set-Cookie", "Content-Length", "Connection"}
				k := names[tp.Choose("tokname", len(names))]
				if k == "Connection" && connTokAt < 0 {
					connTokAt = i // whether the connection outlives this request is hertz's reading of the list
				}
				if k == "Connection" && tp.Choose("http10", 2) == 1 {
					m.Proto = "HTTP/1.0" // only there does the server look through the Connection list
					ep.Probe("http10-connection-list")
				}
				src := k
				if k == "X-Set-Cookie" {
					src = "Cookie"
				}
				v := hostileTokens[src][tp.Choose("tokval", len(hostileTokens[src]))]
				replaced := false
				for j := range m.Headers {
					if m.Headers[j].K == k {
						m.Headers[j].V = v
						replaced = true
					}
				}
				if !replaced && k != "Content-Length" {
					m.Headers = append(m.Headers, wire.Header{K: k, V: v})
				}
				if k == "Content-Length" && len(m.Body) > 0 && !m.Chunked {
					m.NoFraming = true
					m.Headers = append(m.Headers, wire.Header{K: k, V: v})
					if strings.TrimSpace(v) != "5" && badCLAt < 0 {
						badCLAt = i
						ep.Probe("invalid-content-length")
					}
					if router || huge {
						// (later modes only) a perfectly valid header behind the invalid one
						if tp.Choose("afterbadcl", 2) == 1 {
							m.Headers = append(m.Headers, wire.Header{K: "Trailer", V: "X-T"})
						}
					}
				}
			}
		}
		b, bs := m.Encode()
		if zeroTrailer && m.Chunked {
			// reads that end right behind the last-chunk line and one or two bytes into the trailer section
			if t := bytes.LastIndex(b, []byte("\r\n0\r\n")); t >= 0 {
				bs = append(bs, t+5, t+6, t+7)
				sort.Ints(bs)
			}
			zeroTrailer = false
		}
		if m.Chunked && ep.Param("tokens") != "off" && tp.Chance("chunktoken", 1, 4) {
			// replace the first chunk-size line by a hostile one
			head := bytes.Index(b, []byte("\r\n\r\n")) + 4
			if eol := bytes.Index(b[head:], []byte("\r\n")); eol >= 0 {
				tok := []string{"ffffffffffffffff", "8000000000000000", "7fffffffffffffff", "-1", "0x10", "fffffffffffffffff", "1g", "", " 5", "5 ", "00000000000000000005", "FFFFFFFF"}[tp.Choose("chunktok", 12)]
				b = append(append(append([]byte(nil), b[:head]...), tok...), b[head+eol:]...)
				anyToken = true
				ep.Probe("mut-token")
				ep.Probe("hostile-chunk-size")
			}
		}
		for _, x := range bs {
			bounds = append(bounds, len(stream)+x)
		}
		reqStart = append(reqStart, len(stream))
		stream = append(stream, b...)
		methods = append(methods, m.Method)
	}
	valid := true
	var mdesc []string
	if ep.Param("mutate") != "off" && tp.Chance("mutate", 3, 4) {
		stream, mdesc = mutate(tp, ep, stream, bounds)
		valid = false
		ep.Fault("corrupt")
	}
	_ = valid
	conn := srv.Connect("c1")
	conn.A.In.Boundaries = bounds
	cl := NewClient(ep, conn)
	cl.Methods = methods
	cl.NoInterim = false
	cl.CloseWhenDone = false
	cl.FinWhenQuiet = true
	ew := []int{5, 2, 2}
	if (router || huge) && valid && n >= 2 && !anyToken && tooLargeAt < 0 && badCLAt < 0 {
		ew = append(ew, 3) // stall: the peer goes silent in the middle of the second or a later request
	}
	endKind := tp.Weighted("endkind", ew)
	injectedAbort := false
	stalled := false
	_ = stalled
	switch endKind {
	case 3:
		k := 1 + tp.Choose("stallreq", n-1)
		if methods[k] == "HEAD" {
			// the 408 for a request that never arrived completely carries a body; whether the few bytes that did
			// arrive make it "a response to HEAD" is not this check's question
			endKind = 0
			cl.Sends = []Send{{Data: stream, Label: "stream"}}
			break
		}
		lo, hi := reqStart[k]+4, len(stream)-1
		if k+1 < n {
			hi = reqStart[k+1] - 1
		}
		if hi <= lo {
			hi = lo + 1
		}
		cut := lo + tp.Choose("stallcut", hi-lo)
		if cut > len(stream)-1 {
			cut = len(stream) - 1
		}
		cl.Sends = []Send{{Data: stream[:cut], Label: "then-silence"}}
		cl.FinWhenQuiet = false
		stalled = true
		endKind = 1 // for the oracles below: an incomplete stream
		ep.Fault("stall-mid-request")
	case 0:
		cl.Sends = []Send{{Data: stream, Label: "stream"}}
	case 1: // truncate + FIN
		cut := tp.Choose("cut", len(stream)+1)
		cl.Sends = []Send{{Data: stream[:cut], Label: "truncated"}, {Kind: "fin", Label: "fin"}}
		ep.Fault("truncate")
	case 2: // truncate + RST
		cut := tp.Choose("cut", len(stream)+1)
		cl.Sends = []Send{{Data: stream[:cut], Label: "truncated"}, {Kind: "rst", Label: "rst"}}
		ep.Fault("rst")
		injectedAbort = true
	}
	ep.Logf("input: %q", wire.Trunc(strings.ReplaceAll(string(stream), "aaaaaaaa", ""), 1500))
	ep.Logf("stream %dB mutations=%v end=%d stream-mode=%v recovery=%v fs=%v", len(stream), mdesc, endKind, o.Stream, withRecovery, useFS)
	ep.Sig(fmt.Sprintf("m:%d e:%d s:%v r:%v", len(mdesc), endKind, o.Stream, withRecovery))
	res := ep.S.Run(func() bool { return conn.Task.Done })
	cl.Parse()
	ep.Logf("methods=%v output=%q", cl.Methods, wire.Trunc(string(conn.Rx), 900))
	if cl.ParseErr != nil || len(cl.Leftover()) > 0 {
		// a mutation may have turned HEAD into another method or vice versa: accept
		// any assignment of {as sent, HEAD, GET} per response that decodes the output completely
		if ms, ends, ok := parseLenient(conn.Rx, cl.Methods, 0, conn.B.PeerClosedWrite()); ok {
			cl.Resps, cl.RespEnds, cl.ParseErr = ms, ends, nil
			cl.SetOffset(len(conn.Rx))
		}
	}

	if conn.PanicVal != nil {
		if PanicInHertz(conn.PanicStk) {
			ep.Fail("C03.panic:"+shortFunc(panicTop(conn.PanicStk)), "peer input made hertz panic out of Engine.Serve: %v at %s", conn.PanicVal, panicTop(conn.PanicStk))
		} else if strings.Contains(conn.PanicStk, "github.com/cloudwego/hertz/") {
			// a standard-library or dependency frame on top, reached through hertz
			ep.Fail("C03.panic:"+shortFunc(panicTop(conn.PanicStk)), "peer input made hertz panic out of Engine.Serve: %v at %s (called from hertz)", conn.PanicVal, panicTop(conn.PanicStk))
		} else {
			ep.Infra = fmt.Sprintf("harness panic: %v\n%s", conn.PanicVal, conn.PanicStk)
		}
		return
	}
	switch res {
	case core.RunDeadlock:
		ep.Fail("C03.wellformed", "server neither answered nor closed after the peer finished sending (handled %d, responses %d); %s", handled, len(cl.Resps), ep.S.Describe())
		return
	case core.RunStepCap:
		ep.Infra = "step cap"
		return
	case core.RunViolation:
		return
	}
	// everything written is a sequence of complete, well-formed responses
	if cl.ParseErr != nil {
		ep.Fail("C03.wellformed", "server output is not well-formed HTTP: %v (after %d complete responses); output: %q", cl.ParseErr, len(cl.Resps), wire.Trunc(string(conn.Rx), 700))
		return
	}
	if l := cl.Leftover(); len(l) > 0 && !injectedAbort {
		ep.Fail("C03.wellformed", "server output ends with %d bytes that are not a complete response: %q", len(l), wire.Trunc(string(l), 80))
		return
	}
	// shape of a parse-level rejection: a response written without the request ever reaching ServeHTTP
	nresp := len(cl.Resps)
	redirects := 0
	if router {
		// the engine answers these itself, without running the middleware chain
		for _, r := range cl.Resps {
			if _, ok := r.Get("Location"); ok && (r.Status == 301 || r.Status == 307 || r.Status == 308) {
				redirects++
				ep.Probe("redirected")
			}
		}
	}
	if parseLevel := nresp - entered - redirects; parseLevel > 0 {
		ep.Probe("rejected")
		last := cl.Resps[nresp-1]
		if parseLevel != 1 {
			ep.Fail("C03.reject", "%d responses were written for requests that never reached a handler (want exactly one rejection): %s", parseLevel, respSummary(cl))
			return
		}
		if last.Status/100 != 4 {
			ep.Fail("C03.reject", "rejection response has status %d, want 4xx: %s", last.Status, respSummary(cl))
			return
		}
		if v, _ := last.Get("Connection"); v != "close" {
			ep.Fail("C03.reject", "request rejected with %d but the response carries Connection %q instead of close", last.Status, v)
			return
		}
		if !conn.A.IsClosed() {
			ep.Fail("C03.reject", "request rejected with %d but the server did not close the connection", last.Status)
			return
		}
	} else if parseLevel < 0 && !injectedAbort && conn.Err == nil {
		ep.Fail("C03.wellformed", "%d requests reached a handler but only %d responses were written", entered+redirects, nresp)
		return
	}
	// buffered mode: a body over the limit is always rejected (only judged on unmutated, complete streams)
	if !o.Stream && tooLargeAt >= 0 && len(mdesc) == 0 && endKind == 0 && !anyToken {
		earlierOK := true
		for k := 0; k < tooLargeAt && k < nresp; k++ {
			if cl.Resps[k].Status/100 != 2 {
				earlierOK = false
			}
		}
		if earlierOK && (nresp <= tooLargeAt || cl.Resps[tooLargeAt].Status != 413) {
			st := 0
			if nresp > tooLargeAt {
				st = cl.Resps[tooLargeAt].Status
			}
			ep.Fail("C03.reject-missing", "request %d has a body over MaxRequestBodySize but was answered with %d (responses %s)", tooLargeAt, st, respSummary(cl))
			return
		}
	}
	// RFC 7230 3.3.3: a Content-Length that is not a number (and no Transfer-Encoding) is an unrecoverable framing error: 400 and close
	if badCLAt >= 0 && len(mdesc) == 0 && endKind == 0 && tooLargeAt < 0 && (connTokAt < 0 || connTokAt >= badCLAt) {
		ok := true
		for k := 0; k < badCLAt && k < nresp; k++ {
			if cl.Resps[k].Status/100 != 2 && cl.Resps[k].Status/100 != 3 {
				ok = false // an earlier request already ended the connection
			}
		}
		if ok && (nresp <= badCLAt || cl.Resps[badCLAt].Status != 400) {
			st := 0
			if nresp > badCLAt {
				st = cl.Resps[badCLAt].Status
			}
			ep.Fail("C03.reject-missing", "request %d carries an invalid Content-Length and no Transfer-Encoding but was answered with %d (responses %s)", badCLAt, st, respSummary(cl))
			return
		}
	}
	ep.Nontrivial = len(mdesc) > 0 || endKind != 0
	ep.Sample = map[string]interface{}{"stream_bytes": len(stream), "mutations": mdesc, "end": []string{"complete", "truncate+FIN", "truncate+RST"}[endKind], "responses": respSummary(cl), "handled": handled, "stream_mode": o.Stream, "recovery": withRecovery}
}

// parseLenient decodes rx completely as a sequence of responses, trying for
// each response the method as sent, then HEAD, then GET.
func parseLenient(rx []byte, methods []string, idx int, eof bool) ([]*wire.Msg, []int, bool) {
	if len(rx) == 0 {
		return nil, nil, true
	}
	cands := []string{"GET", "HEAD"}
	if idx < len(methods) && methods[idx] == "HEAD" {
		cands = []string{"HEAD", "GET"}
	}
	for _, m := range cands {
		msg, n, err := wire.ParseResponse(rx, m, eof)
		if err != nil {
			continue
		}
		if msg.Status == 100 {
			// an interim response: not the answer to a request
			rest, ends, ok := parseLenient(rx[n:], methods, idx, eof)
			if ok {
				for i := range ends {
					ends[i] += n
				}
			}
			return rest, ends, ok
		}
		rest, ends, ok := parseLenient(rx[n:], methods, idx+1, eof)
		if ok {
			for i := range ends {
				ends[i] += n
			}
			return append([]*wire.Msg{msg}, rest...), append([]int{n}, ends...), true
		}
	}
	return nil, nil, false
}

// runC03Client: hostile or broken servers. Valid responses (fixed, chunked with
// trailers, redirects with Location, Set-Cookie) are mutated, truncated and cut
// by FIN/RST and read by the real HostClient (buffered / streaming, following
// redirects); the caller then runs the response-side parsers on what arrived.
func runC03Client(ep *core.Episode) {
	tp := ep.Tape
	S := ep.S
	ep.Probe("client-side")
	nw := core.NewNet(ep)
	dialer := NewSimDialer(ep, nw)
	stream := tp.Chance("stream", 1, 3)
	opt := &http1.ClientOptions{Dialer: dialer, MaxConns: 4, ResponseBodyStream: stream, MaxResponseBodySize: tp.Pick("limit", 0, 500), ReadTimeout: time.Second}
	hc := http1.NewHostClient(opt).(*http1.HostClient)
	hc.SetDynamicConfig(&pclient.DynamicConfig{Addr: "sim.test:80"})
	ep.OnCleanup(func() {
		hc.CloseIdleConnections()
		S.Sleep(11 * time.Second)
		S.Sleep(11 * time.Second)
	})
	// response script
	mk := func(i int) ([]byte, []int) {
		m := &wire.Msg{Proto: "HTTP/1.1", Status: 200, Reason: "OK"}
		m.Headers = []wire.Header{{K: "Content-Type", V: "text/plain"}, {K: "Set-Cookie", V: "k=v; Path=/; SameSite=Lax; HttpOnly; Max-Age=10"}}
		m.Body = core.PatternBytes(byte(i), 1+tp.Choose("rb", 700))
		switch tp.Choose("rkind", 4) {
		case 1:
			m.Chunked = true
			m.ChunkSizes = splitChunks(tp, len(m.Body))
			m.Headers = append(m.Headers, wire.Header{K: "Trailer", V: "X-T"})
			m.Trailers = []wire.Header{{K: "X-T", V: "tv"}}
		case 2:
			m.Status, m.Reason = 302, "Found"
			m.Headers = append(m.Headers, wire.Header{K: "Location", V: []string{"/next", "http://sim.test/abs", "a:b", "//", "http://", "/%zz", "", "?q", "http:/x", "/\x00"}[tp.Choose("loc", 10)]})
		case 3:
			m.Status, m.Reason = 204, "No Content"
			m.Body = nil
			m.NoFraming = true
		}
		if tp.Chance("tok", 1, 3) {
			names := []string{"Set-Cookie", "Trailer", "Content-Length", "Content-Type", "Location", "Connection"}
			k := names[tp.Choose("tokn", len(names))]
			if k == "Connection" && tp.Choose("http10", 2) == 1 {
				m.Proto = "HTTP/1.0"
			}
			src := map[string]string{"Set-Cookie": "Cookie", "Location": "Host"}[k]
			if src == "" {
				src = k
			}
			v := hostileTokens[src][tp.Choose("tokv", len(hostileTokens[src]))]
			done := false
			for j := range m.Headers {
				if m.Headers[j].K == k {
					m.Headers[j].V = v
					done = true
				}
			}
			if !done && k != "Content-Length" {
				m.Headers = append(m.Headers, wire.Header{K: k, V: v})
			}
			ep.Probe("mut-token")
		}
		return m.Encode()
	}
	var peers []*PeerConn
	served := map[int]int{}
	dialer.OnConnect = func(p *PeerConn) { peers = append(peers, p) }
	S.AddSource(core.SourceFunc(func(add func(core.Event)) {
		for _, p := range peers {
			p := p
			p.Pump()
			if p.Off >= len(p.Rx) || p.B.IsClosed() {
				continue
			}
			_, n, err := wire.ParseRequest(p.Rx[p.Off:])
			if err != nil {
				continue
			}
			add(core.Event{Key: fmt.Sprintf("serve k%d", p.ID), Weight: 25, Apply: func() {
				p.Off += n
				served[p.ID]++
				b, bounds := mk(p.ID*10 + served[p.ID])
				if ep.Param("mutate") != "off" && tp.Chance("mutate", 3, 4) {
					var d []string
					b, d = mutate(tp, ep, b, bounds)
					ep.Fault("corrupt")
					ep.Logf("  response mutations %v", d)
				}
				switch tp.Weighted("endkind", []int{5, 2, 2}) {
				case 0:
					p.B.Send(b, 0)
				case 1:
					p.B.Send(b[:tp.Choose("cut", len(b)+1)], 0)
					p.B.Close()
					ep.Fault("truncate")
				case 2:
					p.B.Send(b[:tp.Choose("cut", len(b)+1)], 0)
					p.B.Close()
					ep.Fault("rst")
				}
			}})
		}
	}))
	var caller *core.Task
	caller = S.Go("caller", func() {
		n := 1 + tp.Choose("ncalls", 3)
		for i := 0; i < n; i++ {
			req := protocol.AcquireRequest()
			resp := protocol.AcquireResponse()
			req.SetRequestURI(fmt.Sprintf("http://sim.test/c%d", i))
			var err error
			if tp.Choose("redirects", 2) == 1 {
				err = hc.DoRedirects(context.Background(), req, resp, 2)
			} else {
				err = hc.Do(context.Background(), req, resp)
			}
			S.Yield("caller.afterDo")
			ep.Logf("  call %d -> %v (status %d)", i, err, resp.StatusCode())
			if err == nil {
				// run the response-side parsers on what arrived
				if resp.IsBodyStream() {
					io.ReadAll(resp.BodyStream())
					resp.CloseBodyStream()
				} else {
					resp.Body()
				}
				resp.Header.VisitAllCookie(func(k, v []byte) {
					c := protocol.AcquireCookie()
					c.ParseBytes(v)
					_ = c.SameSite()
					_ = c.Expire()
					protocol.ReleaseCookie(c)
				})
				resp.Header.VisitAll(func(k, v []byte) {})
				resp.Header.Trailer().VisitAll(func(k, v []byte) {})
				if loc := resp.Header.Peek("Location"); len(loc) > 0 {
					u := protocol.AcquireURI()
					req.URI().CopyTo(u)
					u.UpdateBytes(loc)
					_ = u.FullURI()
					protocol.ReleaseURI(u)
				}
			}
			protocol.ReleaseRequest(req)
			protocol.ReleaseResponse(resp)
		}
	})
	S.Horizon = 30 * time.Second
	res := S.Run(func() bool { return caller.Done })
	if caller.Panic != nil {
		if strings.Contains(caller.Stack, "github.com/cloudwego/hertz/") {
			ep.Fail("C03.panic:"+shortFunc(panicTop(caller.Stack)), "a server response made the hertz client panic: %v at %s", caller.Panic, panicTop(caller.Stack))
		} else {
			ep.Infra = fmt.Sprintf("harness panic: %v\n%s", caller.Panic, caller.Stack)
		}
		return
	}
	switch res {
	case core.RunDeadlock:
		ep.Fail("C03.wellformed", "client call never returned although the server finished and a read timeout is configured; %s", S.Describe())
	case core.RunStepCap:
		ep.Infra = "step cap"
	}
	ep.Nontrivial = len(ep.Faults) > 0
	ep.Sample = map[string]interface{}{"side": "client", "connections": len(peers), "stream_mode": stream, "faults": fmt.Sprint(ep.Faults)}
}
