package props

import (
	"crypto/tls"
	"fmt"
	"net"
	"os"
	"syscall"
	"time"

	"github.com/cloudwego/hertz/pkg/network"
	"github.com/cloudwego/hertz/pkg/network/standard"

	"verifsim/core"
	"verifsim/wire"
)

// Dial is one pending or finished dial attempt.
type Dial struct {
	ID       int
	Addr     string
	Timeout  time.Duration
	task     *core.Task
	state    int // 0 pending, 1 ok, 2 refused, 3 timed out, 4 stalled (waiting for the timeout)
	timedOut bool
	conn     network.Conn
	Started  time.Time
	Ended    time.Time // zero while pending
	By       string    // name of the task that dialled
}

// SimDialer is the network.Dialer handed to the hertz client: every dial is a
// scheduler decision (complete, refuse, stall until the dial timeout).
type SimDialer struct {
	ep    *core.Episode
	nw    *core.Net
	Dials []*Dial
	// OnConnect is called (on the scheduler goroutine) when a dial succeeds.
	OnConnect func(p *PeerConn)
	Peers     []*PeerConn
	// fault weights: ok, refuse, stall
	W          [3]int
	RefuseAll  bool // server down
	BufSize    int
	InProgress int
}

func NewSimDialer(ep *core.Episode, nw *core.Net) *SimDialer {
	d := &SimDialer{ep: ep, nw: nw, W: [3]int{1, 0, 0}, BufSize: 4096}
	ep.S.AddSource(d)
	return d
}

func (d *SimDialer) DialConnection(n, address string, timeout time.Duration, tlsConfig *tls.Config) (network.Conn, error) {
	s := d.ep.S
	s.Mu.Lock()
	dl := &Dial{ID: len(d.Dials), Addr: address, Timeout: timeout, Started: time.Now()}
	d.Dials = append(d.Dials, dl)
	d.InProgress++
	s.Mu.Unlock()
	var tm *time.Timer
	if timeout > 0 {
		tm = time.AfterFunc(timeout, func() {
			s.Mu.Lock()
			dl.timedOut = true
			s.Mu.Unlock()
			s.Poke()
		})
	}
	t := s.Current("dial")
	s.Mu.Lock()
	dl.task = t
	s.Mu.Unlock()
	d.ep.Logf("  dial #%d to %s (timeout %v) by %s", dl.ID, address, timeout, t.Name)
	s.Block(t, fmt.Sprintf("dial:#%d", dl.ID))
	if tm != nil {
		tm.Stop()
	}
	s.Mu.Lock()
	dl.Ended = time.Now()
	dl.By = t.Name
	d.InProgress--
	st := dl.state
	conn := dl.conn
	s.Mu.Unlock()
	switch st {
	case 1:
		return conn, nil
	case 2:
		return nil, &net.OpError{Op: "dial", Net: "tcp", Err: &os.SyscallError{Syscall: "connect", Err: syscall.ECONNREFUSED}}
	default:
		return nil, &net.OpError{Op: "dial", Net: "tcp", Err: os.ErrDeadlineExceeded}
	}
}

func (d *SimDialer) DialTimeout(network, address string, timeout time.Duration, tlsConfig *tls.Config) (net.Conn, error) {
	return nil, fmt.Errorf("sim: DialTimeout not supported")
}

func (d *SimDialer) AddTLS(conn network.Conn, tlsConfig *tls.Config) (network.Conn, error) {
	return nil, fmt.Errorf("sim: TLS not supported")
}

func (d *SimDialer) Enabled(add func(core.Event)) {
	s := d.ep.S
	s.Mu.Lock()
	var pend []*Dial
	for _, dl := range d.Dials {
		if dl.task != nil && dl.task.Parked() && (dl.state == 0 || dl.state == 4) {
			pend = append(pend, dl)
		}
	}
	s.Mu.Unlock()
	for _, dl := range pend {
		dl := dl
		if dl.timedOut {
			add(core.Event{Key: fmt.Sprintf("dial-timeout #%d", dl.ID), Urgent: true, Apply: func() {
				s.Mu.Lock()
				dl.state = 3
				s.Mu.Unlock()
				d.ep.Fault("dial-timeout")
				s.Release(dl.task)
			}})
			continue
		}
		if dl.state == 4 {
			continue // stalled: only the timeout can end it
		}
		add(core.Event{Key: fmt.Sprintf("dial #%d", dl.ID), Weight: 20, Apply: func() {
			w := d.W
			if dl.Timeout <= 0 {
				w[2] = 0 // cannot stall without a timeout
			}
			out := d.ep.Tape.Weighted("dialout", w[:])
			if d.RefuseAll {
				out = 1
			}
			switch out {
			case 0:
				a, b := d.nw.NewPair(fmt.Sprintf("k%d", dl.ID))
				p := &PeerConn{ID: dl.ID, Addr: dl.Addr, A: a, B: b}
				a.Out.Auto = true // the peer is an actor
				s.Mu.Lock()
				dl.state = 1
				dl.conn = standard.NewVerifConn(a, d.BufSize)
				d.Peers = append(d.Peers, p)
				s.Mu.Unlock()
				if d.OnConnect != nil {
					d.OnConnect(p)
				}
				d.ep.Sig("dial-ok")
				s.Release(dl.task)
			case 1:
				s.Mu.Lock()
				dl.state = 2
				s.Mu.Unlock()
				d.ep.Fault("dial-error")
				s.Release(dl.task)
			case 2:
				s.Mu.Lock()
				dl.state = 4
				s.Mu.Unlock()
				d.ep.Fault("dial-stall")
			}
		}})
	}
}

// PeerConn is the server side of a connection dialled by the hertz client.
type PeerConn struct {
	ID   int
	Addr string        // the address the client dialled
	A, B *core.SimConn // A: client (hertz) end, B: server (actor) end
	Rx   []byte
	Off  int // parsed up to here
	// Exchanges seen on this connection, in order.
	Reqs []*wire.Msg
}

// Pump appends newly received bytes.
func (p *PeerConn) Pump() {
	if b := p.B.Recv(); len(b) > 0 {
		p.Rx = append(p.Rx, b...)
	}
}

// NextRequest strictly parses the next complete request, if any.
func (p *PeerConn) NextRequest() (*wire.Msg, error) {
	p.Pump()
	if p.Off >= len(p.Rx) {
		return nil, nil
	}
	m, n, err := wire.ParseRequest(p.Rx[p.Off:])
	if err == wire.ErrIncomplete {
		return nil, nil
	}
	if err != nil {
		return nil, err
	}
	p.Off += n
	p.Reqs = append(p.Reqs, m)
	return m, nil
}
