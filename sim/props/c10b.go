package props

import (
	"context"
	"errors"
	"fmt"
	"os"
	"sort"
	"strings"
	"time"

	"github.com/cloudwego/hertz/pkg/app/client"
	"github.com/cloudwego/hertz/pkg/common/config"
	errs "github.com/cloudwego/hertz/pkg/common/errors"
	"github.com/cloudwego/hertz/pkg/common/verifhook"
	"github.com/cloudwego/hertz/pkg/protocol"

	"verifsim/core"
	"verifsim/wire"
)

// runC10AppClient: the layer above HostClient. client.Client keeps one HostClient per host in a map,
// creates them on first use and removes unused ones from a timer-driven cleaner (every 10 s). The
// per-host connection bound, exclusivity and the "nothing left behind" clause are judged per host
// address over everything the dialer was asked for, whichever HostClient asked.
func runC10AppClient(ep *core.Episode) {
	tp := ep.Tape
	S := ep.S
	ep.Probe("app-client")
	nw := core.NewNet(ep)
	dialer := NewSimDialer(ep, nw)

	maxPer := 1 + tp.Choose("permax", 2)
	idleDur := tp.PickDur("idledur", 100*time.Millisecond, 2*time.Second, 12*time.Second)
	waitT := tp.PickDur("wait", 0, 50*time.Millisecond, 15*time.Second)
	// 2, 3: as 0, 1 (one or two hosts), and a HostClientConfigHook that takes its time. hertz runs that hook under the
	// client-wide mutex, so the scheduler may only park it when client.go was built with rewritten lock statements.
	nhk := tp.Choose("nhosts", 4)
	cfgHook := nhk >= 2 && os.Getenv("VSIM_AST") == "1"
	copts := []config.ClientOption{client.WithDialer(dialer), client.WithMaxConnsPerHost(maxPer), client.WithMaxIdleConnDuration(idleDur), client.WithMaxConnWaitTimeout(waitT)}
	if cfgHook {
		copts = append(copts, client.WithHostClientConfigHook(func(hc interface{}) error {
			ep.Probe("config-hook")
			S.Yield("config-hook")
			return nil
		}))
	}
	cli, err := client.NewClient(copts...)
	if err != nil {
		ep.Infra = "client.NewClient: " + err.Error()
		return
	}
	hosts := []string{"a.test", "b.test"}[:1+nhk%2]
	ep.Logf("config: maxConnsPerHost=%d idle=%v wait=%v hosts=%v", maxPer, idleDur, waitT, hosts)

	// the call a task is in gives its connection up at these yield sites (inside Do, before it returns)
	curCall := map[string]string{}
	released := map[string]bool{}
	verifhook.OnYield = func(site string, obj interface{}) {
		ep.Probe("yield:" + site)
		if site == "releaseConn" || site == "closeConn" {
			if id := curCall[S.Current(site).Name]; id != "" {
				released[id] = true
			}
		}
		S.Yield(site)
	}
	ep.OnDrained(func() { verifhook.OnYield = nil })

	// ---- scripted server: answers every complete request, after a hold the scheduler decides ----
	type peerState struct {
		p        *PeerConn
		pending  []string // request ids received and not yet answered
		using    string   // request id of the exchange in progress
		answered bool     // its response has been sent
	}
	var peers []*peerState
	dialer.OnConnect = func(p *PeerConn) { peers = append(peers, &peerState{p: p}) }
	returned := map[string]bool{}
	seenReq := map[string]int{}
	S.AddSource(core.SourceFunc(func(add func(core.Event)) {
		for _, ps := range peers {
			ps := ps
			if ps.p.B.IsClosed() {
				continue
			}
			for {
				m, err := ps.p.NextRequest()
				if err != nil {
					ep.Fail("C10.match", "connection k%d: the client sent bytes that are not a request: %v", ps.p.ID, err)
					return
				}
				if m == nil {
					break
				}
				id, _ := m.Get("X-Req-Id")
				if id == "" {
					// calls made through the URL helpers carry their id in the path
					if k := strings.LastIndexByte(m.Target, '/'); k >= 0 {
						id = m.Target[k+1:]
					}
				}
				// judged on the wire: a second request on a connection whose previous request has not been answered yet
				if ps.using != "" && !ps.answered && ps.using != id {
					ep.Fail("C10.exclusive", "connection k%d carries request %s while the exchange for %s is still in progress on it", ps.p.ID, id, ps.using)
					return
				}
				ps.using, ps.answered = id, false
				// the server is healthy and nothing is ever retried in this scenario: every request arrives exactly once, as its caller built it
				seenReq[id]++
				if seenReq[id] > 1 {
					ep.Fail("C10.once", "request %s arrived %d times at a healthy server (connection k%d)", id, seenReq[id], ps.p.ID)
					return
				}
				if h, _ := m.Get("Host"); !strings.HasPrefix(h, "a.test") && !strings.HasPrefix(h, "b.test") {
					ep.Fail("C10.match", "request %s arrived with Host %q", id, h)
					return
				}
				ps.pending = append(ps.pending, id)
			}
			if len(ps.pending) > 0 {
				add(core.Event{Key: fmt.Sprintf("serve k%d", ps.p.ID), Weight: 10, Apply: func() {
					id := ps.pending[0]
					ps.pending = ps.pending[1:]
					r := &wire.Msg{Proto: "HTTP/1.1", Status: 200, Reason: "OK", Headers: []wire.Header{{K: "X-Req-Id", V: id}}, Body: []byte("resp-for-" + id)}
					b, _ := r.Encode()
					ps.p.B.Send(b, 0)
					if id == ps.using {
						ps.answered = true
					}
				}})
			}
		}
	}))

	// ---- per-host invariant after every step: open connections + dials in progress <= MaxConnsPerHost ----
	S.Invariant = func() {
		open := map[string]int{}
		for _, ps := range peers {
			if !ps.p.A.IsClosed() {
				open[ps.p.Addr]++
			}
		}
		for _, dl := range dialer.Dials {
			if dl.state == 0 || dl.state == 4 {
				open[dl.Addr]++
			}
		}
		var addrs []string
		for a := range open {
			addrs = append(addrs, a)
		}
		sort.Strings(addrs)
		for _, a := range addrs {
			if open[a] > maxPer {
				ep.Fail("C10.max", "%d connections (open or being dialled) to %s exceed MaxConnsPerHost %d", open[a], a, maxPer)
				return
			}
		}
	}

	// ---- callers ----
	type call struct {
		id   string
		host string
		err  error
	}
	var calls []*call
	ncallers := 2 + tp.Choose("ncallers", 3)
	var tasks []*core.Task
	think := []time.Duration{0, 0, time.Millisecond, 5 * time.Second, 10 * time.Second, 10*time.Second + time.Millisecond, 11 * time.Second}
	for ci := 0; ci < ncallers; ci++ {
		ci := ci
		ncalls := 1 + tp.Choose("ncalls", 3)
		tasks = append(tasks, S.Go(fmt.Sprintf("caller-%d", ci), func() {
			for k := 0; k < ncalls && !ep.Failed(); k++ {
				if d := think[tp.Choose("think", len(think))]; d > 0 {
					time.Sleep(d)
					S.Yield("caller.think") // sleepers wake at the same instant: serialise them again
				}
				c := &call{id: fmt.Sprintf("c%d-%d", ci, k), host: hosts[tp.Choose("host", len(hosts))]}
				calls = append(calls, c)
				req, resp := protocol.AcquireRequest(), protocol.AcquireResponse()
				req.SetRequestURI("http://" + c.host + "/x")
				req.Header.SetMethod("GET")
				req.Header.Set("X-Req-Id", c.id)
				name := fmt.Sprintf("caller-%d", ci)
				curCall[name] = c.id
				api := tp.Choose("api", 3)
				if api == 0 {
					c.err = cli.Do(context.Background(), req, resp)
				} else {
					// the URL helpers with a deadline: the exchange runs on a goroutine of its own and may outlive the call
					tmo := []time.Duration{0, 50 * time.Millisecond, 20 * time.Second}[api]
					st, body, gerr := cli.GetTimeout(context.Background(), nil, "http://"+c.host+"/x/"+c.id, tmo)
					c.err = gerr
					if gerr == nil {
						resp.SetStatusCode(st)
						resp.SetBody(body)
						resp.Header.Set("X-Req-Id", c.id) // the helper returns status and body only
						if string(body) != "resp-for-"+c.id {
							ep.Fail("C10.match", "GetTimeout for %s returned the body %q", c.id, wire.Trunc(string(body), 40))
						}
					}
					ep.Probe("url-helper-call")
				}
				S.Yield("caller.afterDo")
				curCall[name] = ""
				returned[c.id] = true
				if c.err == nil {
					if got := string(resp.Header.Peek("X-Req-Id")); got != c.id || string(resp.Body()) != "resp-for-"+c.id {
						ep.Fail("C10.match", "call %s received the response to request %q (body %q)", c.id, got, wire.Trunc(string(resp.Body()), 40))
					}
				} else if strings.Contains(c.err.Error(), "dial") && strings.Contains(c.err.Error(), "timeout") {
					ep.Probe("dial-timeout-returned") // the scheduler held the dial back for longer than the dial timeout
				} else if errors.Is(c.err, errs.ErrTimeout) && api >= 1 {
					ep.Probe("url-helper-timeout") // the scheduler let more than the deadline pass
				} else if !errors.Is(c.err, errs.ErrNoFreeConns) {
					ep.Fail("C10.match", "call %s to a healthy server failed: %v", c.id, c.err)
				} else {
					ep.Probe("no-free-conns")
				}
				ep.Logf("  caller-%d Do(%s -> %s) -> %v", ci, c.id, c.host, c.err)
				protocol.ReleaseRequest(req)
				protocol.ReleaseResponse(resp)
			}
		}))
	}
	// runnable callers may be held back while timers (the 10 s host-client cleaner, the idle reaper) fire
	S.StallWeight = 1
	S.StallQuanta = []time.Duration{time.Millisecond, idleDur + time.Millisecond, 10 * time.Second}
	S.PassTimeWeight = 1
	S.Quanta = []time.Duration{time.Millisecond, 10 * time.Second}
	S.MaxSteps = 6000
	S.Horizon = 2 * time.Minute
	res := S.Run(func() bool {
		for _, t := range tasks {
			if !t.Done {
				return false
			}
		}
		return true
	})
	for _, t := range tasks {
		if t.Panic != nil {
			if PanicInHertz(t.Stack) {
				ep.Fail("C10.panic:"+shortFunc(panicTop(t.Stack)), "panic in hertz client: %v at %s", t.Panic, panicTop(t.Stack))
			} else {
				ep.Infra = fmt.Sprintf("harness panic: %v\n%s", t.Panic, t.Stack)
			}
			return
		}
	}
	switch res {
	case core.RunViolation:
		return
	case core.RunStepCap:
		ep.Infra = "step cap"
		return
	case core.RunDeadlock:
		var stuck []string
		for _, c := range calls {
			if !returned[c.id] {
				stuck = append(stuck, c.id)
			}
		}
		ep.Fail("C10.stuck", "calls %v never returned although nothing more can happen; %s", stuck, S.Describe())
		return
	}
	// ---- nothing left behind: with the callers gone every connection is closed by the idle reapers,
	// and the reaper and cleaner goroutines end (bounded: a few idle periods / cleaner ticks) ----
	S.StallWeight, S.PassTimeWeight = 0, 0
	S.Invariant = nil
	S.MaxSteps = S.Steps + 4000
	for i := 0; i < 8; i++ {
		S.Sleep(idleDur + 10*time.Second + time.Millisecond)
		if r := S.Run(func() bool { return !S.AnyRunnable() }); r == core.RunStepCap {
			break
		}
		left := 0
		for _, ps := range peers {
			if !ps.p.A.IsClosed() {
				left++
			}
		}
		if left == 0 {
			break
		}
	}
	var open []string
	for _, ps := range peers {
		if !ps.p.A.IsClosed() {
			open = append(open, fmt.Sprintf("k%d(%s)", ps.p.ID, ps.p.Addr))
		}
	}
	if len(open) > 0 {
		ep.Fail("C10.reap", "connections %v are still open %v after the last call returned (idle duration %v)", open, 8*(idleDur+10*time.Second), idleDur)
		return
	}
	ep.Probe("reaped")
	ep.LeakedGoroutines += len(hosts) // a cleaner may still be between ticks
	ep.Sig(fmt.Sprintf("app:%d:%d:%d:%v", maxPer, len(hosts), ncallers, strings.Join(sortedFaults(ep), ",")))
	ep.Nontrivial = len(dialer.Dials) > 0 && (ep.Faults["sched-stall"] > 0 || len(calls) > 2)
	ep.Sample = map[string]interface{}{"layer": "client.Client", "hosts": len(hosts), "maxConnsPerHost": maxPer, "callers": ncallers, "calls": len(calls), "connections_dialled": len(dialer.Dials), "stalls": ep.Faults["sched-stall"]}
}

func sortedFaults(ep *core.Episode) []string {
	var ks []string
	for k := range ep.Faults {
		ks = append(ks, k)
	}
	sort.Strings(ks)
	return ks
}
