package props

import (
	"bufio"
	"bytes"
	"context"
	"fmt"
	"io"
	"net/http"
	"strings"

	"github.com/cloudwego/hertz/pkg/app"
	"github.com/cloudwego/hertz/pkg/protocol/http1/resp"

	"verifsim/core"
	"verifsim/wire"
)

func init() {
	Registry["C04"] = RunC04
	Metas["C04"] = Meta{
		Rule:           "episode = 1..5 requests (GET/HEAD/POST, HTTP/1.0+1.1, keep-alive/close, pipelined or ping-pong) each answered by a generated handler program: status from {100,101,200,201,204,206,301,304,400,404,500,599} x headers via Set/Add/SetContentType/SetCookie x body via SetBody / SetBodyString+AppendBody / Write+WriteString / SetBodyStream(exact n | -1 | LimitedReader; piecewise, zero-length-then-data, EOF-with-data readers) / hijacked chunked writer with arbitrary write+flush patterns and trailers / no body; sizes around 4096 and MaxSmallFileSize; ImmediateHeaderFlush; write backpressure. Oracles: strict reader decodes every response to the program's status/headers/body, framing exact, bodiless statuses carry no body, next response starts where the previous ends, net/http.ReadResponse agrees, Connection header rule. Non-trivial: >= 2 responses or a stream/chunked-writer body; distinct = abstract signature (status, body mode, size bucket, method, proto). Later still: statuses 205/203, handlers that delete Transfer-Encoding after installing an unknown-length stream or use the identity length, handlers that reuse their buffer after SetBody, handlers that install a body stream and then replace it through SetBody / SetBodyString+AppendBody / Write.",
		Real:           []string{"resp.Write/writeBodyStream", "resp.chunkedBodyWriter", "ext.WriteBodyChunked/WriteBodyFixedSize/WriteChunk/WriteTrailer", "ResponseHeader.AppendBytes", "http1.Server.Serve (Connection decision)", "standard.Conn writer"},
		Stub:           []string{"TCP (SimConn)", "peer (scripted actor)", "transporter accept loop (stub)", "clock (synctest)"},
		Assumptions:    []string{"header values are token-safe (hostile bytes are C05's subject, not applicable here)", "documented exclusion honoured: the hijacked chunked writer is not installed on bodiless responses", "a handler-chosen 1xx status is treated as the final response of its request", "with the hijacked chunked writer the header block leaves before the server decides about Connection: the Connection-header oracle is not applied to those responses"},
		RequiredProbes: []string{"mode-none", "mode-setbody", "mode-append", "mode-write", "mode-stream-n", "mode-stream-unknown", "mode-stream-limited", "mode-chunked-writer", "mode-abort-with-msg", "mode-reset-then-body", "flush-before-write", "bodiless-status", "head", "http10", "second-after-chunked", "backpressure", "trailers", "return-to-transport", "stream-then-bytes"},
	}
}

type respProg struct {
	status   int
	hdrs     []wire.Header // expected custom headers (after Set/Add semantics)
	ops      []func(ctx *app.RequestContext)
	ct       string
	cookies  []string // expected Set-Cookie values
	mode     int
	body     []byte
	close    bool
	trailers []wire.Header
	immFlush bool
	fails    bool // the body stream breaks off: no complete response can be written
	connFree bool // the Connection header of this response is not judged
	desc     string
}

var c04Statuses = []int{200, 200, 200, 201, 204, 206, 301, 304, 400, 404, 500, 599, 100, 101, 205, 203}
var c04Sizes = []int{0, 1, 2, 100, 4095, 4096, 4097, 8191, 8192, 8193, 20000, 70000}

type pieceReader struct {
	data   []byte
	sizes  []int
	i      int
	zeroes int
	eofw   bool
	// polling mode: (0, nil) before every piece of at most piece bytes
	zeroEvery bool
	piece     int
	polled    bool
	// failing mode (breaks set): an error once failAt bytes have been handed out
	breaks bool
	failAt int
	given  int
}

func (r *pieceReader) Read(p []byte) (int, error) {
	if len(p) == 0 {
		return 0, nil
	}
	if len(r.data) == 0 {
		return 0, io.EOF
	}
	if r.zeroes > 0 {
		r.zeroes--
		return 0, nil
	}
	if r.zeroEvery && !r.polled {
		r.polled = true
		return 0, nil
	}
	r.polled = false
	if r.breaks && r.given >= r.failAt {
		return 0, fmt.Errorf("scripted body stream error")
	}
	n := len(p)
	if r.breaks && r.given+n > r.failAt {
		n = r.failAt - r.given
	}
	if r.zeroEvery && r.piece < n {
		n = r.piece
	}
	if r.i < len(r.sizes) && r.sizes[r.i] < n {
		n = r.sizes[r.i]
	}
	r.i++
	if n > len(r.data) {
		n = len(r.data)
	}
	copy(p, r.data[:n])
	r.data = r.data[n:]
	r.given += n
	if len(r.data) == 0 && r.eofw {
		return n, io.EOF
	}
	return n, nil
}

// writerToReader: a body stream that writes itself (the shape of the file handler's readers).
type writerToReader struct{ *pieceReader }

func (r *writerToReader) WriteTo(w io.Writer) (int64, error) {
	var n int64
	for i := 0; len(r.data) > 0; i++ {
		k := len(r.data)
		if i < len(r.sizes) && r.sizes[i] < k {
			k = r.sizes[i]
		}
		m, err := w.Write(r.data[:k])
		n += int64(m)
		r.data = r.data[m:]
		if err != nil {
			return n, err
		}
	}
	return n, nil
}

func genProg(tp *core.Tape, idx int, ep *core.Episode, method string) *respProg {
	p := &respProg{}
	p.status = c04Statuses[tp.Choose("status", len(c04Statuses))]
	bodiless := p.status/100 == 1 || p.status == 204 || p.status == 304 || method == "HEAD"
	st := p.status
	// status and headers first: the hijacked writer sends the header block with its first write
	p.ops = append(p.ops, func(ctx *app.RequestContext) { ctx.SetStatusCode(st) })
	// headers
	nh := tp.Choose("nh", 4)
	for i := 0; i < nh; i++ {
		k := []string{"X-One", "X-Two", "Cache-Control", "X-One"}[tp.Choose("hk", 4)]
		v := fmt.Sprintf("v%d-%d", idx, i)
		cnt := 0
		for _, h := range p.hdrs {
			if h.K == k {
				cnt++
			}
		}
		if tp.Choose("add", 2) == 0 && cnt <= 1 {
			// Set on a key with at most one value: replaces it in place
			replaced := false
			for j := range p.hdrs {
				if p.hdrs[j].K == k {
					p.hdrs[j].V = v
					replaced = true
				}
			}
			if !replaced {
				p.hdrs = append(p.hdrs, wire.Header{K: k, V: v})
			}
			p.ops = append(p.ops, func(ctx *app.RequestContext) { ctx.Response.Header.Set(k, v) })
		} else {
			p.hdrs = append(p.hdrs, wire.Header{K: k, V: v})
			p.ops = append(p.ops, func(ctx *app.RequestContext) { ctx.Response.Header.Add(k, v) })
		}
	}
	if tp.Chance("ct", 1, 3) {
		p.ct = "application/x-sim"
		p.ops = append(p.ops, func(ctx *app.RequestContext) { ctx.SetContentType("application/x-sim") })
	}
	if tp.Chance("cookie", 1, 5) {
		p.cookies = append(p.cookies, "sid=abc; path=/")
		p.ops = append(p.ops, func(ctx *app.RequestContext) { ctx.SetCookie("sid", "abc", 0, "/", "", 0, false, false) })
	}
	if tp.Chance("hclose", 1, 8) {
		p.close = true
		p.ops = append(p.ops, func(ctx *app.RequestContext) { ctx.SetConnectionClose() })
	}
	size := c04Sizes[tp.Choose("size", len(c04Sizes))]
	if tp.Chance("usize", 1, 4) {
		size = tp.Choose("usizev", 9000)
	}
	p.mode = tp.Choose("mode", 13)
	staleStream := false
	if p.mode >= 10 {
		// 10..12: modes 1..3 by a handler that had installed a body stream first and then changed its mind
		p.mode -= 9
		staleStream = true
	}
	if p.mode == 7 && bodiless {
		p.mode = tp.Choose("mode2", 7) // documented exclusion
	}
	body := core.PatternBytes(byte(50+idx), size)
	mkReader := func() io.Reader {
		ek := tp.Choose("reofw", 5) // 0/1 as before (recorded tapes); 2: the stream also implements io.WriterTo; 3: a polling stream; 4: a stream that fails half way
		r := &pieceReader{data: append([]byte(nil), body...), zeroes: zeroReads(ep, tp), eofw: ek == 1}
		for i := 0; i < 5; i++ {
			r.sizes = append(r.sizes, 1+tp.Choose("rsz", 6000))
		}
		if ek == 2 {
			ep.Probe("stream-writer-to")
			return &writerToReader{r}
		}
		if ek == 4 && p.mode == 4 && len(body) > 0 && !bodiless {
			// a stream of announced length that breaks off: the response cannot be completed, the connection has to end
			r.breaks, r.failAt = true, tp.Choose("failat", len(body))
			p.fails = true
			ep.Probe("stream-fails")
		}
		if ek == 3 {
			// one empty read before every piece, and well over a hundred pieces: legal (never two empty reads in a row)
			r.zeroes, r.zeroEvery, r.sizes = 0, true, nil
			r.piece = 1 + len(body)/(120+tp.Choose("npieces", 200))
			ep.Probe("stream-polling")
		}
		return r
	}
	if staleStream && size > 0 {
		// (with an empty replacement body the Content-Length of the replaced stream stays in the header, which only
		// shows on HEAD and bodiless statuses, where it frames nothing: not judged, DESIGN.md section 9)
		ep.Probe("stream-then-bytes")
		n := -1
		if idx%2 == 0 {
			n = len("stale-stream-body")
		}
		p.ops = append(p.ops, func(ctx *app.RequestContext) { ctx.SetBodyStream(strings.NewReader("stale-stream-body"), n) })
	}
	switch p.mode {
	case 0:
		ep.Probe("mode-none")
		p.body = nil
	case 1:
		ep.Probe("mode-setbody")
		p.body = body
		p.ops = append(p.ops, func(ctx *app.RequestContext) {
			// SetBody copies: the handler's buffer is its own again right away
			tmp := append([]byte(nil), body...)
			ctx.Response.SetBody(tmp)
			for i := range tmp {
				tmp[i] = '~'
			}
		})
	case 2:
		ep.Probe("mode-append")
		p.body = body
		cut := tp.Choose("cut", size+1)
		p.ops = append(p.ops, func(ctx *app.RequestContext) {
			if staleStream {
				// every entry point has to drop the replaced stream by itself
				ctx.Response.AppendBodyString(string(body[:cut]))
			} else if cut%2 == 1 {
				tmp := append([]byte(nil), body[:cut]...)
				ctx.Response.SetBody(tmp)
				for i := range tmp {
					tmp[i] = '~'
				}
			} else {
				ctx.SetBodyString(string(body[:cut]))
			}
			ctx.Response.AppendBody(body[cut:])
		})
	case 3:
		ep.Probe("mode-write")
		p.body = body
		cut := tp.Choose("cut", size+1)
		p.ops = append(p.ops, func(ctx *app.RequestContext) {
			ctx.Write(body[:cut])
			if staleStream {
				ctx.Write(body[cut:]) // every entry point has to drop the replaced stream by itself
				return
			}
			ctx.WriteString(string(body[cut:]))
		})
	case 4:
		ep.Probe("mode-stream-n")
		p.body = body
		r := mkReader()
		p.immFlush = tp.Chance("imm", 1, 3)
		p.ops = append(p.ops, func(ctx *app.RequestContext) { ctx.SetBodyStream(r, len(body)) })
	case 5:
		ep.Probe("mode-stream-unknown")
		p.body = body
		r := mkReader()
		// 0..2 as before (2: immediate header flush); 3: the handler removes Transfer-Encoding again after installing
		// the stream; 4: size -2 ("identity")
		uk := tp.Choose("imm", 5)
		p.immFlush = uk == 2
		p.ops = append(p.ops, func(ctx *app.RequestContext) {
			switch uk {
			case 3:
				ctx.SetBodyStream(r, -1)
				ctx.Response.Header.Del("Transfer-Encoding")
			case 4:
				ctx.SetBodyStream(r, -2)
			default:
				ctx.SetBodyStream(r, -1)
			}
		})
		if uk >= 3 {
			ep.Probe("stream-unknown-variants")
		}
		if uk == 4 {
			p.connFree = true // "identity" length: whether hertz announces a close depends on status and method; the framing is what is judged
		}
	case 6:
		ep.Probe("mode-stream-limited")
		p.body = body
		r := mkReader()
		p.ops = append(p.ops, func(ctx *app.RequestContext) {
			ctx.SetBodyStream(&io.LimitedReader{R: r, N: int64(len(body))}, -1)
		})
	case 7:
		ep.Probe("mode-chunked-writer")
		p.body = body
		// write + flush pattern
		type wr struct {
			n     int
			flush bool
		}
		var pat []wr
		left := size
		for left > 0 && len(pat) < 8 {
			k := 1 + tp.Choose("wk", left)
			if tp.Choose("wall", 3) == 0 {
				k = left
			}
			pat = append(pat, wr{k, tp.Choose("wf", 2) == 1})
			left -= k
		}
		if left > 0 {
			pat = append(pat, wr{left, false})
		}
		preFlush := tp.Chance("preflush", 1, 4)
		emptyWrite := ep.Param("emptywrite") != "off" && tp.Chance("emptywrite", 1, 6)
		if tp.Chance("trailer", 1, 3) {
			p.trailers = []wire.Header{{K: "X-Sum", V: fmt.Sprintf("s%d", idx)}}
			ep.Probe("trailers")
		}
		tr := p.trailers
		p.ops = append(p.ops, func(ctx *app.RequestContext) {
			ctx.Response.HijackWriter(resp.NewChunkedBodyWriter(&ctx.Response, ctx.GetWriter()))
			for _, t := range tr {
				ctx.Response.Header.Trailer().Set(t.K, t.V)
			}
			if preFlush {
				ctx.Flush() // a flush before anything was written
			}
			off := 0
			for i, w := range pat {
				if emptyWrite && i == 1 {
					ctx.Write(nil)
				}
				ctx.Write(body[off : off+w.n])
				off += w.n
				if w.flush {
					ctx.Flush()
				}
			}
		})
		if emptyWrite && len(pat) > 1 {
			ep.Probe("empty-write")
		}
		if preFlush {
			ep.Probe("flush-before-write")
		}
	case 8: // reset-style helper: everything set before is dropped
		ep.Probe("mode-abort-with-msg")
		msg := string(core.PatternBytes(byte(70+idx), 1+tp.Choose("msglen", 200)))
		p.body = []byte(msg)
		p.hdrs, p.cookies, p.close = nil, nil, false
		p.ct = "text/plain; charset=utf-8"
		p.ops = append(p.ops, func(ctx *app.RequestContext) { ctx.AbortWithMsg(msg, st) })
	case 9:
		ep.Probe("mode-reset-then-body")
		p.body = body
		p.hdrs, p.cookies, p.close, p.ct = nil, nil, false, ""
		p.ops = append(p.ops, func(ctx *app.RequestContext) {
			ctx.Response.Reset()
			ctx.SetStatusCode(st)
			ctx.Response.SetBody(body)
		})
	}
	if p.immFlush {
		p.ops = append(p.ops, func(ctx *app.RequestContext) { ctx.Response.ImmediateHeaderFlush = true })
	}
	if bodiless {
		ep.Probe("bodiless-status")
	}
	p.desc = fmt.Sprintf("status=%d mode=%d size=%d hdrs=%d ct=%q close=%v trailers=%d immflush=%v", p.status, p.mode, size, len(p.hdrs), p.ct, p.close, len(p.trailers), p.immFlush)
	return p
}

func RunC04(ep *core.Episode) {
	tp := ep.Tape
	o := SrvOpts{BufSize: 4096}
	o.ReturnToTransport = tp.Chance("returnmode", 1, 5)
	if o.ReturnToTransport {
		ep.Probe("return-to-transport")
	}
	nw := core.NewNet(ep)
	srv := NewSrv(ep, nw, o)
	n := 1 + tp.Weighted("nreq", []int{2, 3, 2, 1, 1})
	var progs []*respProg
	var reqs []*wire.Msg
	ran := 0
	srv.Eng.Any("/*any", func(c context.Context, ctx *app.RequestContext) {
		if ran >= len(progs) {
			ran++
			return
		}
		p := progs[ran]
		ran++
		for _, op := range p.ops {
			op(ctx)
		}
	})
	srv.Start()
	conn := srv.Connect("c1")
	cl := NewClient(ep, conn)
	cl.NoInterim = true
	pingpong := tp.Choose("pingpong", 2) == 1
	for i := 0; i < n; i++ {
		m := &wire.Msg{Proto: "HTTP/1.1", Method: []string{"GET", "HEAD", "POST", "GET"}[tp.Choose("method", 4)], Target: fmt.Sprintf("/q%d", i), NoFraming: true}
		m.Headers = []wire.Header{{K: "Host", V: "example.com"}}
		if tp.Chance("http10", 1, 6) {
			m.Proto = "HTTP/1.0"
			ep.Probe("http10")
			if i < n-1 || tp.Choose("ka10", 2) == 1 {
				m.Headers = append(m.Headers, wire.Header{K: "Connection", V: "keep-alive"})
			}
		} else if i == n-1 && tp.Choose("reqclose", 2) == 1 {
			m.Headers = append(m.Headers, wire.Header{K: "Connection", V: "close"})
		}
		if m.Method == "POST" {
			m.Body = []byte("x=1")
			m.NoFraming = false
		}
		if m.Method == "HEAD" {
			ep.Probe("head")
		}
		reqs = append(reqs, m)
		p := genProg(tp, i, ep, m.Method)
		progs = append(progs, p)
		ep.Logf("req %d: %s %s; program: %s", i, m.Method, m.Proto, p.desc)
		ep.Sig(fmt.Sprintf("p:%d:%d:%s:%s:%s", p.status, p.mode, core.BucketSize(len(p.body)), m.Method, m.Proto))
		if i > 0 && (progs[i-1].mode == 7 || progs[i-1].mode == 5) {
			ep.Probe("second-after-chunked")
		}
		b, bounds := m.Encode()
		after := 0
		if pingpong {
			after = i
		}
		cl.Methods = append(cl.Methods, m.Method)
		cl.Sends = append(cl.Sends, Send{Data: b, AfterResps: after, Bounds: bounds, Label: "req"})
	}
	// write backpressure: the peer accepts the response in pieces
	if tp.Chance("backpressure", 1, 4) {
		conn.A.Out.Cap = tp.Pick("cap", 512, 4096, 20000)
		ep.S.AddSource(core.SourceFunc(func(add func(core.Event)) {
			if k := conn.B.InflightTo(); k > 0 {
				add(core.Event{Key: "peer-accept c1", Apply: func() {
					n := k
					if tp.Choose("accall", 2) == 1 {
						n = 1 + tp.Choose("acck", k)
					}
					conn.B.AcceptFromWriter(n)
					ep.Fault("backpressure")
				}})
			}
		}))
	}
	res := ep.S.Run(func() bool { return conn.Task.Done })
	conn.B.AcceptFromWriter(conn.B.InflightTo())
	cl.Parse()
	if CheckPanic(ep, "C04", conn) {
		return
	}
	switch res {
	case core.RunDeadlock:
		ep.Fail("C04.decode", "connection stuck: %d/%d handlers ran, %d responses decoded, parse error %v; %s", ran, n, len(cl.Resps), cl.ParseErr, ep.S.Describe())
		return
	case core.RunStepCap:
		ep.Infra = "step cap"
		return
	case core.RunViolation:
		return
	}
	// a body stream that broke off: the response is cut short, nothing may follow on the connection
	cutShort := false
	for f, p := range progs {
		if !p.fails || f >= ran {
			continue
		}
		if ran > f+1 {
			ep.Fail("C04.next", "response %d was cut short by its failing body stream (Content-Length announced), yet the server went on to serve request %d on the same connection", f, f+1)
			return
		}
		if len(cl.Resps) > f {
			ep.Fail("C04.framing", "response %d decodes as a complete message although its body stream broke off (announced %d bytes)", f, len(p.body))
			return
		}
		if !conn.A.IsClosed() {
			ep.Fail("C04.next", "response %d was cut short by its failing body stream but the server left the connection open", f)
			return
		}
		// the responses before it are judged as usual
		ran = f
		cl.ParseErr = nil
		cutShort = true
		break
	}
	// how many requests were legitimately served: the server stops after the first close
	if cl.ParseErr != nil {
		ep.Fail("C04.decode", "response %d is not a well-formed HTTP/1.1 message: %v", len(cl.Resps), cl.ParseErr)
		return
	}
	served := len(cl.Resps)
	if served != ran {
		ep.Fail("C04.next", "%d handlers ran but %d responses decoded (server wrote %dB, undecoded tail starts %q, serve err=%v)", ran, served, len(conn.Rx), wire.Trunc(string(cl.Leftover()), 300), conn.Err)
		return
	}
	if l := cl.Leftover(); len(l) > 0 && !cutShort {
		ep.Fail("C04.next", "%d stray bytes after response %d: %q", len(l), served-1, wire.Trunc(string(l), 60))
		return
	}
	start := 0
	for i := 0; i < served; i++ {
		p, m, rq := progs[i], cl.Resps[i], reqs[i]
		raw := conn.Rx[start:cl.RespEnds[i]]
		start = cl.RespEnds[i]
		bodiless := rq.Method == "HEAD" || p.status/100 == 1 || p.status == 204 || p.status == 304
		if m.Status != p.status {
			ep.Fail("C04.decode", "response %d: status %d, program set %d", i, m.Status, p.status)
			return
		}
		// headers
		var custom []wire.Header
		var cookies, cts []string
		connHdr := ""
		for _, h := range m.Headers {
			switch strings.ToLower(h.K) {
			case "server", "date", "content-length", "transfer-encoding", "trailer":
			case "content-type":
				cts = append(cts, h.V)
			case "set-cookie":
				cookies = append(cookies, h.V)
			case "connection":
				connHdr = h.V
			default:
				custom = append(custom, h)
			}
		}
		if !sameHeaders(custom, p.hdrs) {
			ep.Fail("C04.decode", "response %d: header fields [%s], program set [%s]", i, strings.ReplaceAll(wire.HeaderString(custom), "\n", "|"), strings.ReplaceAll(wire.HeaderString(p.hdrs), "\n", "|"))
			return
		}
		if strings.Join(cookies, "|") != strings.Join(p.cookies, "|") {
			ep.Fail("C04.decode", "response %d: Set-Cookie %q, program set %q", i, cookies, p.cookies)
			return
		}
		if p.ct != "" && (len(cts) != 1 || cts[0] != p.ct) {
			ep.Fail("C04.decode", "response %d: Content-Type %q, program set %q", i, cts, p.ct)
			return
		}
		if len(cts) > 1 {
			ep.Fail("C04.decode", "response %d: %d Content-Type fields", i, len(cts))
			return
		}
		// body
		if bodiless {
			if len(m.Body) != 0 {
				ep.Fail("C04.nobody", "response %d (%s, status %d) carries %d body bytes", i, rq.Method, p.status, len(m.Body))
				return
			}
			// framing fields of a bodiless response: 1xx and 204 carry no Content-Length at all (RFC 7230 3.3.2);
			// on HEAD and 304 it may only announce the length of the body the program produced
			if v, ok := m.Get("Content-Length"); ok {
				if p.status/100 == 1 || p.status == 204 {
					ep.Fail("C04.framing", "response %d (status %d) carries Content-Length %q", i, p.status, v)
					return
				}
				if v != fmt.Sprint(len(p.body)) {
					ep.Fail("C04.framing", "response %d (%s, status %d): Content-Length %q, but the program's body has %d bytes; %s", i, rq.Method, p.status, v, len(p.body), p.desc)
					return
				}
			}
		} else {
			if !bytes.Equal(m.Body, p.body) {
				ep.Fail("C04.decode", "response %d: body %dB, program produced %dB (first difference at %d); %s", i, len(m.Body), len(p.body), firstDiff(m.Body, p.body), p.desc)
				return
			}
			if !m.Chunked && !m.CloseDelimited {
				if v, ok := m.Get("Content-Length"); !ok || v != fmt.Sprint(len(p.body)) {
					ep.Fail("C04.framing", "response %d: Content-Length %q for a %d-byte body", i, v, len(p.body))
					return
				}
			}
			if m.CloseDelimited {
				ep.Fail("C04.framing", "response %d has neither Content-Length nor chunked framing", i)
				return
			}
			if p.mode == 7 && !sameHeaders(m.Trailers, p.trailers) {
				ep.Fail("C04.decode", "response %d: trailers [%s], program set [%s]", i, strings.ReplaceAll(wire.HeaderString(m.Trailers), "\n", "|"), strings.ReplaceAll(wire.HeaderString(p.trailers), "\n", "|"))
				return
			}
		}
		// net/http as a second decoder
		hr, err := http.ReadResponse(bufio.NewReader(bytes.NewReader(raw)), &http.Request{Method: rq.Method})
		if err != nil {
			ep.Fail("C04.nethttp", "response %d: net/http.ReadResponse fails: %v", i, err)
			return
		}
		hb, err := io.ReadAll(hr.Body)
		if err != nil {
			ep.Fail("C04.nethttp", "response %d: net/http body read fails: %v", i, err)
			return
		}
		if hr.StatusCode != p.status || (!bodiless && !bytes.Equal(hb, p.body)) || (bodiless && len(hb) != 0) {
			ep.Fail("C04.nethttp", "response %d: net/http decodes status %d body %dB, program %d / %dB", i, hr.StatusCode, len(hb), p.status, len(p.body))
			return
		}
		// Connection header
		http10 := rq.Proto == "HTTP/1.0"
		reqClose := false
		reqKA := false
		for _, h := range rq.Headers {
			if strings.EqualFold(h.K, "Connection") {
				reqClose = h.V == "close"
				reqKA = h.V == "keep-alive"
			}
		}
		wantClose := reqClose || p.close || (http10 && !reqKA)
		if p.connFree {
			wantClose = connHdr == "close"
			if http10 && !wantClose {
				connHdr = "keep-alive"
			}
		}
		if p.mode == 7 {
			// the hijacked writer has sent the header block before the server
			// takes its connection decision; the Connection rule cannot apply
			wantClose = connHdr == "close"
			if http10 && !wantClose {
				connHdr = "keep-alive"
			}
		}
		if wantClose != (connHdr == "close") {
			ep.Fail("C04.connection", "response %d: Connection %q but close expected=%v (request %s close=%v keep-alive=%v, handler close=%v)", i, connHdr, wantClose, rq.Proto, reqClose, reqKA, p.close)
			return
		}
		if !wantClose && http10 && connHdr != "keep-alive" {
			ep.Fail("C04.connection", "response %d to an HTTP/1.0 keep-alive request carries Connection %q", i, connHdr)
			return
		}
		if wantClose && i != served-1 && p.mode != 7 {
			ep.Fail("C04.connection", "response %d announced close but %d more responses followed", i, served-1-i)
			return
		}
		if !wantClose && i == served-1 && served < n && p.mode != 7 && !cutShort {
			ep.Fail("C04.next", "only %d of %d requests answered although response %d kept the connection alive (serve err=%v)", served, n, i, conn.Err)
			return
		}
	}
	ep.Nontrivial = served >= 2
	for _, p := range progs {
		if p.mode >= 4 {
			ep.Nontrivial = true
		}
	}
	var ds []string
	for i, p := range progs {
		ds = append(ds, reqs[i].Method+" "+reqs[i].Proto+" -> "+p.desc)
	}
	ep.Sample = map[string]interface{}{"exchanges": ds, "pingpong": pingpong, "responses_decoded": served}
}

func zeroReads(ep *core.Episode, tp *core.Tape) int {
	z := tp.Choose("rz", 3)
	if ep.Param("zeroreads") == "off" {
		return 0
	}
	if z > 0 {
		ep.Probe("zero-read")
	}
	return z
}
