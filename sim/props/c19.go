package props

import (
	"context"
	"fmt"
	"net"
	"sort"
	"strings"
	"syscall"
	"time"

	"github.com/cloudwego/hertz/pkg/app"
	"github.com/cloudwego/hertz/pkg/app/middlewares/server/recovery"
	"github.com/cloudwego/hertz/pkg/common/config"
	"github.com/cloudwego/hertz/pkg/common/tracer/stats"
	"github.com/cloudwego/hertz/pkg/common/tracer/traceinfo"
	"github.com/cloudwego/hertz/pkg/network"
	"github.com/cloudwego/hertz/pkg/network/standard"
	"github.com/cloudwego/hertz/pkg/protocol"

	"verifsim/core"
	"verifsim/pollstub"
	"verifsim/wire"
)

func init() {
	Registry["C19"] = RunC19
	Metas["C19"] = Meta{
		Rule:           "episode = connection history of 1..5 requests (keep-alive/close/pipelined) with an outcome per request from {ok, handler panic + recovery, malformed header, body too large, peer FIN mid-header, peer FIN mid-body, peer RST mid-body, write error while responding, hijack, Connection: close} and an end of connection from {peer FIN idle, peer RST idle, idle timeout on the fake clock, server close, return-to-transport (IdleTimeout==0 transporter, Serve re-entered per request)}; trace levels Disabled/Base/Detailed; distinct positive delays between stages. Oracle: two-state automaton over the recorded Start/Finish calls + per-pair stage order. Non-trivial: >= 2 requests or a fault fired; distinct = abstract signature (outcome sequence, end kind, level, mode). Added later: Expect: 100-continue accepted / rejected by the ContinueHandler; zero-request histories; a second connection served afterwards on the recycled context (the error carried by Finish is judged); two connections served at the same time with every stage record a scheduling point and the second accept placed uniformly over the history of the first.",
		Real:           []string{"http1.Server.Serve (DoStart/DoFinish/eventStack)", "internal/stats.Controller", "traceinfo.HTTPStats", "recovery middleware", "route.Engine", "standard.Conn"},
		Stub:           []string{"TCP (SimConn)", "peer (scripted actor)", "transporter (stub; for return-to-transport mode the harness re-enters Engine.Serve when data arrives, as netpoll does)", "clock (synctest)"},
		Assumptions:    []string{"a connection that delivers no byte at all may produce one Start/Finish pair (the server starts tracing before the first read); this is not counted against the per-request rule"},
		RequiredProbes: []string{"concurrent-connections", "second-connection", "zero-request-history", "out-expect-ok", "out-expect-rejected", "out-ok", "out-panic", "out-malformed", "out-toolarge", "out-fin-header", "out-fin-body", "out-rst-body", "out-write-error", "out-hijack", "out-close", "end-fin-idle", "end-rst-idle", "end-idle-timeout", "end-stray-fin", "mode-return-to-transport", "level-base", "level-detailed", "level-disabled"},
	}
}

type traceCall struct {
	kind   string // start | finish
	path   string
	status int
	events map[string]time.Time
	errs   map[string]bool
	err    error // Stats().Error() at the time of the call
}

type recTracer struct {
	sink func(c *app.RequestContext, tc traceCall)
	wrap func(ti traceinfo.TraceInfo) traceinfo.TraceInfo
}

// c19Epoch: where the fake clock of every simulation bubble starts.
var c19Epoch = time.Date(2000, 1, 1, 0, 0, 0, 0, time.UTC)

var c19Events = []struct {
	name string
	ev   stats.Event
}{
	{"HTTPStart", stats.HTTPStart}, {"ReadHeaderStart", stats.ReadHeaderStart}, {"ReadHeaderFinish", stats.ReadHeaderFinish},
	{"ReadBodyStart", stats.ReadBodyStart}, {"ReadBodyFinish", stats.ReadBodyFinish},
	{"ServerHandleStart", stats.ServerHandleStart}, {"ServerHandleFinish", stats.ServerHandleFinish},
	{"WriteStart", stats.WriteStart}, {"WriteFinish", stats.WriteFinish}, {"HTTPFinish", stats.HTTPFinish},
}

func (t *recTracer) snap(kind string, c *app.RequestContext) {
	tc := traceCall{kind: kind, events: map[string]time.Time{}, errs: map[string]bool{}}
	if kind == "finish" {
		// the raw target: URI() would cache a parse of the still empty header if called at Start
		tc.path = string(c.Request.Header.RequestURI())
	}
	tc.status = c.Response.StatusCode()
	if ti := c.GetTraceInfo(); ti != nil {
		tc.err = ti.Stats().Error()
		for _, e := range c19Events {
			if ev := ti.Stats().GetEvent(e.ev); ev != nil {
				tc.events[e.name] = ev.Time()
			}
		}
	}
	t.sink(c, tc)
}

func (t *recTracer) Start(ctx context.Context, c *app.RequestContext) context.Context {
	if t.wrap != nil {
		c.SetTraceInfo(t.wrap(c.GetTraceInfo()))
	}
	t.snap("start", c)
	return ctx
}

func (t *recTracer) Finish(ctx context.Context, c *app.RequestContext) {
	t.snap("finish", c)
}

var c19Outcomes = []string{"ok", "ok", "ok", "panic", "malformed", "toolarge", "fin-header", "fin-body", "rst-body", "write-error", "hijack", "close", "expect-ok", "expect-rejected", "stream-error"}

func RunC19(ep *core.Episode) {
	tp := ep.Tape
	level := []stats.Level{stats.LevelDetailed, stats.LevelBase, stats.LevelDisabled}[tp.Weighted("level", []int{5, 2, 1})]
	ep.Probe([]string{"level-disabled", "level-base", "level-detailed"}[int(level)])
	tr := &recTracer{}
	ctxTr := &ctxTracer{}
	// values 0..4 keep their meaning as a 1-in-5 chance (recorded tapes); 5: two connections served at the same time
	rmv := tp.Choose("returnmode", 6)
	returnMode := rmv == 4
	concurrent := rmv == 5
	force := ep.Param("c19force") != "" // dev aid: two concurrent connections, the first ending in a write error
	if force {
		concurrent, returnMode = true, false
	}
	idleTimeout := 5 * time.Second
	o := SrvOpts{BufSize: 4096, MaxBody: 2000, IdleTimeout: idleTimeout}
	o.Stream = tp.Chance("stream", 1, 4)
	o.Configure = func(opts *config.Options) {
		opts.Tracers = []interface{}{ctxTr, tr} // two tracers: what the first one's Start returns has to reach its own Finish
		opts.TraceLevel = level
		if returnMode {
			opts.TransporterNewer = pollstub.NewStub
			opts.IdleTimeout = 0
		}
	}
	if returnMode {
		ep.Probe("mode-return-to-transport")
	}
	nw := core.NewNet(ep)
	srv := NewSrv(ep, nw, o)
	// per-connection state; connections of one episode are served one after the other
	type connState struct {
		outcomes []string
		handled  int
		conn     *SrvConn
		calls    []traceCall
		verify   func() bool
	}
	var cur *connState // the connection being served (sequential mode) / last prepared
	byConn := map[interface{}]*connState{}
	stateOf := func(ctx *app.RequestContext) *connState {
		if st := byConn[ctx.GetConn()]; st != nil {
			return st
		}
		return cur
	}
	tr.sink = func(c *app.RequestContext, tc traceCall) {
		st := stateOf(c)
		st.calls = append(st.calls, tc)
	}
	recordCount := 0
	if concurrent {
		// every stage record is a scheduling point: the two connections interleave inside Serve's prologue and epilogue
		tr.wrap = func(ti traceinfo.TraceInfo) traceinfo.TraceInfo {
			if _, ok := ti.(*yieldTraceInfo); ok {
				return ti
			}
			return &yieldTraceInfo{TraceInfo: ti, ep: ep, count: &recordCount}
		}
	}
	srv.Eng.Use(recovery.Recovery(recovery.WithRecoveryHandler(func(c context.Context, ctx *app.RequestContext, err interface{}, stack []byte) {
		ctx.AbortWithStatus(500)
	})))
	srv.Eng.Any("/*any", func(c context.Context, ctx *app.RequestContext) {
		cur := stateOf(ctx)
		idx := cur.handled
		cur.handled++
		time.Sleep(time.Millisecond) // distinct stage timestamps on the fake clock
		if concurrent {
			ep.S.Yield("handler.after-sleep") // sleepers of two connections wake at the same instant: serialise them again
		}
		if o.Stream && ctx.Request.IsBodyStream() {
			ctx.Request.Body()
		}
		oc := "ok"
		if idx < len(cur.outcomes) {
			oc = cur.outcomes[idx]
		}
		switch oc {
		case "panic":
			panic("scripted handler panic")
		case "write-error":
			cur.conn.A.FailWrite = &net.OpError{Op: "write", Net: "tcp", Err: &osSyscallErr{"write", syscall.EPIPE}}
			ep.Fault("write-error")
		case "hijack":
			ctx.Hijack(func(c network.Conn) {})
			ep.Fault("hijack")
		case "close":
			ctx.SetConnectionClose()
		case "stream-error":
			// the response body is a stream of announced length that fails half way: writing the response fails
			// (not the flush), the connection ends
			ctx.SetStatusCode(200)
			ctx.Response.SetBodyStream(&failingReader{left: 100}, 5000)
			ep.Fault("response-stream-error")
			return
		}
		ctx.SetStatusCode(200)
		ctx.Response.SetBodyString(fmt.Sprintf("ok %d", idx))
	})
	// Expect: 100-continue: the engine's ContinueHandler turns marked requests down (417, the body is never sent)
	srv.Eng.ContinueHandler = func(h *protocol.RequestHeader) bool { return len(h.Peek("X-Reject")) == 0 }
	srv.Start()

	prepare := func(ci int) *connState {
		// the added sixth weight is the zero-request history: the peer connects and leaves without a byte
		n := 1 + tp.Weighted("nreq", []int{2, 3, 3, 2, 1, 1})
		if n == 6 {
			n = 0
			ep.Probe("zero-request-history")
		}
		outcomes := make([]string, n)
		ender := -1
		for i := 0; i < n; i++ {
			outcomes[i] = c19Outcomes[tp.Choose("outcome", len(c19Outcomes))]
			if o.Stream && outcomes[i] == "toolarge" {
				outcomes[i] = "ok" // streaming mode does not reject on the size limit
			}
			if outcomes[i] != "ok" && outcomes[i] != "panic" && outcomes[i] != "expect-ok" && outcomes[i] != "expect-rejected" && ender < 0 {
				ender = i
			}
		}
		if force && ci == 0 {
			outcomes, n, ender = []string{"write-error"}, 1, 0
		}
		if ender >= 0 {
			outcomes = outcomes[:ender+1]
			n = ender + 1
		}
		endKind := "fin-idle"
		if ender < 0 {
			endKind = []string{"fin-idle", "rst-idle", "idle-timeout", "stray-fin"}[tp.Choose("end", 4)]
			if (returnMode || n == 0) && endKind == "idle-timeout" {
				endKind = "fin-idle" // the idle timeout only guards the wait for a second or later request
			}
			ep.Probe("end-" + endKind)
		}
		for _, oc := range outcomes {
			ep.Probe("out-" + oc)
		}
		ep.Logf("connection %d: outcomes=%v end=%s level=%d returnMode=%v stream=%v", ci, outcomes, endKind, level, returnMode, o.Stream)
		ep.Sig(fmt.Sprintf("%v|%s|%d|%v", outcomes, endKind, level, returnMode))

		// connection + serving task (return-to-transport mode re-enters Serve)
		a, b := nw.NewPair(fmt.Sprintf("c%d", ci+1))
		a.Out.Auto = true
		conn := &SrvConn{Name: fmt.Sprintf("c%d", ci+1), A: a, B: b}
		st := &connState{outcomes: outcomes, conn: conn}
		first := cur // the connection prepared before this one, if any
		cur = st
		serves := 0
		lateStart := concurrent && ci == 1
		conn.Task = ep.S.Go(conn.Name+".srv", func() {
			if lateStart {
				// the second connection is accepted at a moment the scheduler picks, typically well into the first one's history
				ep.S.Block(conn.Task, "second.accept")
			}
			defer func() {
				if r := recover(); r != nil {
					conn.PanicVal = r
					conn.PanicStk = stackString()
					a.Close()
				}
			}()
			nc := standard.NewVerifConn(a, o.BufSize)
			byConn[nc] = st
			for {
				serves++
				conn.Err = srv.Eng.Serve(context.Background(), nc)
				if !returnMode || conn.Err != nil || a.IsClosed() {
					break
				}
				// netpoll-style: come back when there is something to read
				if _, err := nc.Peek(1); err != nil {
					nc.Close()
					break
				}
			}
			conn.Returned = true
		})
		cl := NewClient(ep, conn)
		cl.CloseWhenDone = false
		delay := time.Millisecond
		finHeaderCut := 0
		continues := 0
		for i, oc := range outcomes {
			m := &wire.Msg{Proto: "HTTP/1.1", Method: "POST", Target: fmt.Sprintf("/t%d", i), Headers: []wire.Header{{K: "Host", V: "h"}}}
			m.Body = core.PatternBytes(byte(i), 10+tp.Choose("blen", 500))
			if oc == "toolarge" {
				m.Body = core.PatternBytes(byte(i), 2001+tp.Choose("big", 3000))
			}
			if oc == "malformed" {
				m.Headers = append(m.Headers, wire.Header{K: "Bad Header", V: "x", Raw: "Bad Header : x\r\n"})
			}
			if oc == "expect-ok" || oc == "expect-rejected" {
				m.Headers = append(m.Headers, wire.Header{K: "Expect", V: "100-continue"})
				if oc == "expect-rejected" {
					m.Headers = append(m.Headers, wire.Header{K: "X-Reject", V: "1"})
				}
			}
			data, bounds := m.Encode()
			head := strings.Index(string(data), "\r\n\r\n") + 4
			after := 0
			if tp.Choose("pingpong", 2) == 1 {
				after = i
			}
			cl.Methods = append(cl.Methods, "POST")
			switch oc {
			case "expect-ok":
				continues++
				cl.Sends = append(cl.Sends, Send{Data: data[:head], AfterResps: after, Delay: delay, Bounds: bounds, Label: "head-expect"}, Send{Data: data[head:], AfterContinues: continues, Delay: delay, Label: "body-after-100"})
			case "expect-rejected":
				// no 100 Continue arrives: the body is never sent
				cl.Sends = append(cl.Sends, Send{Data: data[:head], AfterResps: after, Delay: delay, Bounds: bounds, Label: "head-expect-rejected"})
			case "fin-header":
				cut := 1 + tp.Choose("hcut", head-2)
				finHeaderCut = cut
				cl.Sends = append(cl.Sends, Send{Data: data[:cut], AfterResps: after, Delay: delay, Label: "partial-header"}, Send{Kind: "fin", Label: "fin"})
				ep.Fault("fin-mid-header")
			case "fin-body", "rst-body":
				cut := head + tp.Choose("bcut", len(m.Body)-1)
				cl.Sends = append(cl.Sends, Send{Data: data[:head], AfterResps: after, Delay: delay, Label: "head"}, Send{Data: data[head:cut], Delay: delay, Label: "partial-body"})
				if oc == "fin-body" {
					cl.Sends = append(cl.Sends, Send{Kind: "fin", Label: "fin"})
					ep.Fault("fin-mid-body")
				} else {
					cl.Sends = append(cl.Sends, Send{Kind: "rst", Label: "rst"})
					ep.Fault("rst-mid-body")
				}
			default:
				cl.Sends = append(cl.Sends, Send{Data: data[:head], AfterResps: after, Delay: delay, Bounds: bounds, Label: "head"}, Send{Data: data[head:], Delay: delay, Label: "body"})
			}
		}
		switch {
		case ender >= 0:
			// the server ends the connection itself (or the injected fault did)
		case endKind == "fin-idle":
			cl.Sends = append(cl.Sends, Send{Kind: "fin", AfterResps: n, Delay: delay, Label: "fin-idle"})
		case endKind == "rst-idle":
			cl.Sends = append(cl.Sends, Send{Kind: "rst", AfterResps: n, Delay: delay, Label: "rst-idle"})
		case endKind == "idle-timeout":
			ep.Fault("idle-timeout")
		case endKind == "stray-fin":
			// 1..3 stray bytes (e.g. a trailing CRLF from a sloppy client) and then the peer leaves:
			// fewer than the 4 bytes the server waits for, so no request begins
			stray := []string{"\r\n", "\r", "\n", "GE", "\r\n\r"}[tp.Choose("stray", 5)]
			after := n
			if tp.Choose("straypipelined", 2) == 1 {
				after = 0 // right behind the last request, typically in the same segment
			}
			cl.Sends = append(cl.Sends, Send{Data: []byte(stray), AfterResps: after, Label: "stray"}, Send{Kind: "fin", AfterResps: n, Delay: delay, Label: "fin-after-stray"})
			ep.Fault("stray-bytes")
		}
		acceptAfter := 0
		if lateStart {
			acceptAfter = tp.Choose("acceptafter", 40)
		}
		if lateStart {
			ep.S.AddSource(core.SourceFunc(func(add func(core.Event)) {
				// the accept lands after a tape-chosen number of stage records of the first connection: uniformly
				// over its history, its epilogue included (a random walk alone would nearly always accept early)
				if conn.Task.Site() == "second.accept" && (recordCount >= acceptAfter || (first != nil && first.conn.Task.Done)) {
					add(core.Event{Key: "accept-second-connection", Weight: 30, Apply: func() { ep.S.Release(conn.Task) }})
				}
			}))
		}
		ep.S.Horizon = 30 * time.Second
		st.verify = func() bool {
			cur := st
			res := core.RunDone
			if !conn.Task.Done {
				res = core.RunDeadlock
			}
			cl.Parse()
			if CheckPanic(ep, "C19", conn) {
				return false
			}
			switch res {
			case core.RunDeadlock:
				ep.Fail("C19.per-request", "connection never ended: %d cur.handled, %d responses, serve calls %d; %s", cur.handled, len(cl.Resps), serves, ep.S.Describe())
				return false
			case core.RunStepCap:
				ep.Infra = "step cap"
				return false
			case core.RunViolation:
				return false
			}

			// ---- oracle: automaton over the call log ----
			if ctxTr.lost != "" && !concurrent {
				ep.Fail("C19.per-request", "%s", ctxTr.lost)
				return false
			}
			calls := st.calls
			desc := func() string {
				var s []string
				for _, c := range calls {
					s = append(s, c.kind+"("+c.path+")")
				}
				return strings.Join(s, " ")
			}
			open := false
			pairs := 0
			for i, c := range calls {
				switch c.kind {
				case "start":
					if open {
						ep.Fail("C19.alternate", "call %d is a second Start without a Finish in between: %s", i, desc())
						return false
					}
					open = true
				case "finish":
					if !open {
						ep.Fail("C19.no-orphan", "call %d is a Finish without a preceding unmatched Start (requests on the connection: %d, outcomes %v, end %s): %s", i, n, outcomes, endKind, desc())
						return false
					}
					open = false
					pairs++
				}
			}
			if open {
				ep.Fail("C19.alternate", "the last Start was never finished: %s", desc())
				return false
			}
			// how many requests certainly began to be read: every cur.handled one, plus the
			// ending request when its bytes could not be lost (a reset may destroy
			// bytes the server had not looked at yet)
			lower := cur.handled
			if ender >= 0 && cur.handled == ender {
				switch outcomes[ender] {
				case "malformed", "toolarge", "fin-body":
					lower++
				case "fin-header":
					// on a keep-alive connection the server waits for the first 4 bytes
					// of the next request before it counts it as begun
					if ender == 0 || finHeaderCut >= 4 {
						lower++
					}
				}
			}
			upper := n
			if n == 0 {
				// the server is entered (and the tracer started) before the first byte is read: one pair that
				// brackets nothing is how a connection without any request shows up
				upper = 1
			}
			if returnMode && endKind == "stray-fin" {
				// return-to-transport mode: the transport re-enters the server for any
				// readable byte, so the stray bytes legitimately begin a (failing) request
				upper = n + 1
			}
			if pairs < lower || pairs > upper {
				ep.Fail("C19.per-request", "%d Start/Finish pairs, want between %d and %d (%d handler invocations, outcomes %v, end %s): %s", pairs, lower, n, cur.handled, outcomes, endKind, desc())
				return false
			}
			for i := 0; i < pairs && i < len(outcomes); i++ {
				st, fin := calls[2*i], calls[2*i+1]
				oc := outcomes[i]
				// the finish carries this request's data
				if i < cur.handled {
					if want := fmt.Sprintf("/t%d", i); fin.path != want {
						ep.Fail("C19.per-request", "Finish of pair %d carries path %q, want %q (outcome %s): %s", i, fin.path, want, oc, desc())
						return false
					}
				}
				// ... including its error: a request that was served normally finishes without one (at every trace level)
				if (oc == "ok" || oc == "close" || oc == "expect-ok") && i < cur.handled && i < len(cl.Resps) && fin.err != nil {
					ep.Fail("C19.per-request", "Finish of pair %d (outcome %s, connection %d) carries the error %v of another exchange", i, oc, ci, fin.err)
					return false
				}
				if st.err != nil {
					ep.Fail("C19.reset", "an error (%v) is already recorded when pair %d of connection %d starts", st.err, i, ci)
					return false
				}
				// no event of the previous request is visible when the pair starts
				var stNames []string
				for name := range st.events {
					stNames = append(stNames, name)
				}
				sort.Strings(stNames) // map order must not reach the message
				for _, name := range stNames {
					if name != "HTTPStart" {
						ep.Fail("C19.reset", "event %s is already present when pair %d starts", name, i)
						return false
					}
				}
				if level == stats.LevelDisabled {
					if len(fin.events) != 0 {
						ep.Fail("C19.stages", "events recorded at level Disabled: %v", fin.events)
						return false
					}
					continue
				}
				for _, must := range []string{"HTTPStart", "HTTPFinish"} {
					if _, ok := fin.events[must]; !ok {
						ep.Fail("C19.stages", "pair %d (outcome %s) finished without event %s", i, oc, must)
						return false
					}
				}
				if level == stats.LevelBase {
					if len(fin.events) != 2 {
						ep.Fail("C19.stages", "level Base recorded detailed events: %v", fin.events)
						return false
					}
					continue
				}
				// every started stage is finished, also on error outcomes
				for _, sf := range [][2]string{{"ReadHeaderStart", "ReadHeaderFinish"}, {"ReadBodyStart", "ReadBodyFinish"}, {"ServerHandleStart", "ServerHandleFinish"}, {"WriteStart", "WriteFinish"}} {
					_, s := fin.events[sf[0]]
					_, f := fin.events[sf[1]]
					if s != f {
						ep.Fail("C19.stages", "pair %d (outcome %s): %s present=%v but %s present=%v", i, oc, sf[0], s, sf[1], f)
						return false
					}
				}
				// causal order of what was recorded
				var prev time.Time
				prevName := ""
				for _, e := range c19Events {
					t, ok := fin.events[e.name]
					if !ok {
						continue
					}
					if t.Before(prev) {
						ep.Fail("C19.stages", "pair %d (outcome %s): %s at %v is earlier than %s at %v", i, oc, e.name, t.Sub(c19Epoch), prevName, prev.Sub(c19Epoch))
						return false
					}
					prev, prevName = t, e.name
				}
				if oc == "ok" || oc == "close" || oc == "hijack" || oc == "expect-ok" {
					if len(fin.events) != len(c19Events) {
						ep.Fail("C19.stages", "pair %d (outcome %s) is missing stage events: has %d of %d", i, oc, len(fin.events), len(c19Events))
						return false
					}
					if !fin.events["ServerHandleFinish"].After(fin.events["ServerHandleStart"]) {
						ep.Fail("C19.stages", "pair %d: handler took 1ms of simulated time but handle start/finish stamps are not increasing", i)
						return false
					}
				}
			}
			if ci == 0 {
				ep.Nontrivial = n >= 2 || len(ep.Faults) > 0
				ep.Sample = map[string]interface{}{"outcomes": outcomes, "end": endKind, "trace_level": int(level), "return_to_transport": returnMode, "calls": desc()}
			}
			return true
		}
		return st
	}
	run := func(sts ...*connState) bool {
		res := ep.S.Run(func() bool {
			for _, st := range sts {
				if !st.conn.Task.Done {
					return false
				}
			}
			return true
		})
		if res == core.RunStepCap {
			ep.Infra = "step cap"
			return false
		}
		if res == core.RunViolation {
			return false
		}
		for _, st := range sts {
			if !st.verify() {
				return false
			}
		}
		return true
	}
	if concurrent {
		ep.Probe("concurrent-connections")
		a, b := prepare(0), prepare(1)
		run(a, b)
		return
	}
	if !run(prepare(0)) {
		return
	}
	// a second connection after the first has ended: it is served with the request context (and its trace
	// info) that the first one gave back
	if tp.Chance("secondconn", 1, 3) {
		ep.Probe("second-connection")
		run(prepare(1))
	}
}

// ctxTracer: its Start marks the context, its Finish (and the handler) must get a context that carries the mark.
type ctxTracer struct {
	starts, finishes int
	lost             string
}

type ctxTracerKey struct{}

func (t *ctxTracer) Start(ctx context.Context, c *app.RequestContext) context.Context {
	t.starts++
	return context.WithValue(ctx, ctxTracerKey{}, t.starts)
}

func (t *ctxTracer) Finish(ctx context.Context, c *app.RequestContext) {
	t.finishes++
	if v, ok := ctx.Value(ctxTracerKey{}).(int); !ok || v != t.starts {
		if t.lost == "" {
			t.lost = fmt.Sprintf("Finish call %d of the first tracer received a context carrying %v, its Start had stored %d", t.finishes, ctx.Value(ctxTracerKey{}), t.starts)
		}
	}
}

// failingReader yields left bytes and then an error.
type failingReader struct{ left int }

func (r *failingReader) Read(p []byte) (int, error) {
	if r.left <= 0 {
		return 0, fmt.Errorf("scripted body stream error")
	}
	n := len(p)
	if n > r.left {
		n = r.left
	}
	for i := 0; i < n; i++ {
		p[i] = 'x'
	}
	r.left -= n
	return n, nil
}

// yieldTraceInfo makes every stage record a scheduling point.
type yieldTraceInfo struct {
	traceinfo.TraceInfo
	ep    *core.Episode
	count *int
}

func (t *yieldTraceInfo) Stats() traceinfo.HTTPStats {
	return &yieldStats{HTTPStats: t.TraceInfo.Stats(), ep: t.ep, count: t.count}
}

type yieldStats struct {
	traceinfo.HTTPStats
	ep    *core.Episode
	count *int
}

func (s *yieldStats) Record(event stats.Event, status stats.Status, info string) {
	*s.count++
	s.ep.S.Yield("stats.record")
	s.HTTPStats.Record(event, status, info)
}

type osSyscallErr struct {
	call string
	err  error
}

func (e *osSyscallErr) Error() string { return e.call + ": " + e.err.Error() }
func (e *osSyscallErr) Unwrap() error { return e.err }
