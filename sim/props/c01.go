package props

import (
	"fmt"
	"strings"

	"verifsim/core"
	"verifsim/wire"
)

func init() {
	Registry["C01"] = RunC01
	Metas["C01"] = Meta{
		Rule: "episode = 1..6 generated well-formed requests (methods x header sets incl. near-miss framing names x body sizes around 4K/8K/64K x CL/chunked/trailers x Expect:100 x keep-alive/close x HTTP/1.0) on one simulated connection, pipelined/ping-pong, seeded fragmentation; x {buffered,streaming} x read buffer 4096/8192/16384 x header normalisation on/off. Non-trivial: >= 2 requests on the connection or >= 2 fragments delivered inside a message; distinct = distinct abstract event signature (event kinds, fragment size buckets, request shape classes). Added later: WithSenseClientDisconnection (a second hertz goroutine blocked in a read while the handler runs, the handler parks on entry so that goroutine is under the scheduler), 600 KB bodies (beyond the 512 KiB buffer-recycling threshold), handlers that stop reading a streamed body after a tape-chosen prefix. Later still: header fields with empty values, handlers that sense client disconnection, partial stream reads, a near-miss Transfer-Encoding name that only Unicode case folding equates.",
		Real: []string{"route.Engine.Serve/ServeHTTP", "http1.Server.Serve", "req.ReadHeader/ReadLimitBody/ReadBodyStream", "ext.ReadBody/readBodyChunked/ReadTrailer/bodyStream", "standard.Conn (linked buffers)", "resp.Write"},
		Stub: []string{"TCP (SimConn)", "peer (scripted actor)", "transporter accept loop (stub; Engine.Serve called directly)", "clock (synctest)"},
		Assumptions: []string{
			"standard transport only; netpoll transport not simulated",
			"ground truth is the generator's structure, serialised by the harness's own encoder",
		},
		RequiredProbes: []string{"fragments", "pipelined", "chunked", "expect100", "nearmiss", "stream", "big-body", "crnear-accepted", "return-to-transport"},
	}
}

// runEchoEpisode is shared by C01/C02: serve reqs on one connection and check
// count/order/content/responses/hang. Returns observations.
type echoRun struct {
	ep   *core.Episode
	srv  *Srv
	conn *SrvConn
	cl   *Client
	echo *Echo
	res  core.RunResult
}

func startEcho(ep *core.Episode, o SrvOpts) *echoRun {
	nw := core.NewNet(ep)
	srv := NewSrv(ep, nw, o)
	e := &Echo{Stream: o.Stream}
	if o.SenseDisconnect {
		// hertz started the detecting goroutine with a bare go statement just before the handler:
		// park here so that it reaches its blocking read now, under the scheduler's control, and
		// not whenever the Go runtime happens to run it
		e.Enter = func() { ep.S.Yield("handler.enter") }
	}
	srv.Eng.Any("/*any", e.Handle)
	srv.Eng.NoRoute(e.Handle) // extension methods have no method tree
	srv.Start()
	conn := srv.Connect("c1")
	cl := NewClient(ep, conn)
	return &echoRun{ep: ep, srv: srv, conn: conn, cl: cl, echo: e}
}

func (r *echoRun) run() {
	r.res = r.ep.S.Run(func() bool { return r.conn.Task.Done })
	r.cl.Parse()
}

// checkEcho applies the C01 oracles under property id prop.
func (r *echoRun) checkEcho(prop string, reqs []*GenReq, norm bool) {
	ep := r.ep
	if CheckPanic(ep, prop, r.conn) {
		return
	}
	switch r.res {
	case core.RunDeadlock:
		ep.Fail(prop+".hang", "connection stuck: %d/%d requests handled, %d/%d responses received, all %d request bytes sent=%v; tasks: %s",
			len(r.echo.Seen), len(reqs), len(r.cl.Resps), len(reqs), r.cl.sentBytes, r.cl.AllSent(), ep.S.Describe())
		return
	case core.RunStepCap:
		ep.Infra = "step cap"
		return
	case core.RunViolation:
		return
	}
	// a request carrying a framing name with a control byte in it is malformed: the server may
	// reject it (one 4xx, then close) - everything before it must still be right
	for i, g := range reqs {
		if !g.Malformed {
			continue
		}
		if len(r.echo.Seen) == i && len(r.cl.Resps) == i+1 && r.cl.Resps[i].Status/100 == 4 && r.conn.A.IsClosed() && r.cl.ParseErr == nil {
			ep.Probe("crnear-rejected")
			reqs = reqs[:i]
			r.cl.Resps = r.cl.Resps[:i]
		}
		break
	}
	if len(r.echo.Seen) != len(reqs) {
		ep.Fail(prop+".count", "%d handler invocations for %d requests (serve err=%v, responses %s, parse err=%v); requests: %v", len(r.echo.Seen), len(reqs), r.conn.Err, respSummary(r.cl), r.cl.ParseErr, describeReqs(reqs))
		return
	}
	for i, g := range reqs {
		want := ExpectObs(g, norm)
		if g.Malformed {
			// if accepted, the odd line may show up as an ordinary field under any spelling: compare without it
			strip := func(hs []wire.Header) []wire.Header {
				var out []wire.Header
				for _, h := range hs {
					if !strings.ContainsAny(h.K, "\r") {
						out = append(out, h)
					}
				}
				return out
			}
			want.Headers = strip(want.Headers)
			r.echo.Seen[i].Headers = strip(r.echo.Seen[i].Headers)
			ep.Probe("crnear-accepted")
		}
		if d := DiffObs(r.echo.Seen[i], want); d != "" {
			// distinguish order problems from content problems
			for j, g2 := range reqs {
				if j != i && DiffObs(r.echo.Seen[i], ExpectObs(g2, norm)) == "" {
					ep.Fail(prop+".order", "invocation %d saw request %d", i, j)
					return
				}
			}
			ep.Fail(prop+".request", "request %d (%s %s): %s", i, g.M.Method, g.M.Target, d)
			return
		}
	}
	if r.cl.ParseErr != nil {
		ep.Fail(prop+".responses", "server output is not well-formed: %v", r.cl.ParseErr)
		return
	}
	if len(r.cl.Resps) != len(reqs) {
		ep.Fail(prop+".responses", "%d final responses for %d requests", len(r.cl.Resps), len(reqs))
		return
	}
	if l := r.cl.Leftover(); len(l) > 0 {
		ep.Fail(prop+".responses", "%d stray bytes after the last response: %q", len(l), string(l[:min(len(l), 40)]))
		return
	}
	for i, m := range r.cl.Resps {
		want := fmt.Sprintf("#%d %s", i, reqs[i].M.Method)
		if reqs[i].M.Method == "HEAD" {
			want = ""
		}
		if m.Status != 200 || string(m.Body) != want {
			ep.Fail(prop+".responses", "response %d is status %d body %q, want 200 %q", i, m.Status, string(m.Body), want)
			return
		}
	}
}

func RunC01(ep *core.Episode) {
	tp := ep.Tape
	o := SrvOpts{}
	// widened draws keep the meaning of the values recorded earlier (witness tapes):
	// stream 0/1 as before, 2 = streaming with handlers that stop reading early;
	// returnmode 0..3 in-loop, 4 return-to-transport, 5 sense-client-disconnection
	sv := tp.Choose("stream", 3)
	o.Stream = sv >= 1
	partial := sv == 2
	o.BufSize = tp.Pick("bufsize", 4096, 8192, 16384)
	o.DisableNorm = tp.Chance("nonorm", 1, 4)
	rm := tp.Choose("returnmode", 6)
	o.ReturnToTransport = rm == 4
	if o.ReturnToTransport {
		ep.Probe("return-to-transport")
	}
	if rm == 5 && !o.Stream {
		// WithSenseClientDisconnection: a second goroutine blocks in a read on the connection while the handler runs
		o.SenseDisconnect = true
		ep.Probe("sense-disconnect")
	}
	r := startEcho(ep, o)
	if partial {
		// every handler reads only a prefix of its streamed body; the server has to dispose of the rest
		stops := make([]int, 8)
		for i := range stops {
			stops[i] = tp.Pick("stopat", -1, 0, 1, 100, 4095, 4096, 8191, 8192, 8193, 20000)
		}
		r.echo.Limit = func(i int) int { return stops[i%len(stops)] }
		ep.Probe("partial-read")
	}
	n := 1 + tp.Weighted("nreq", []int{2, 3, 3, 2, 1, 1})
	gopt := GenOpt{NearMiss: true, CRNear: true, Expect100: true, HTTP10: true, BigBodies: true, Hostile: true, ChunkExt: ep.Param("chunkext") != "off"}
	var reqs []*GenReq
	for i := 0; i < n; i++ {
		g := GenRequest(tp, i, i == n-1, gopt)
		reqs = append(reqs, g)
		ep.Sig(fmt.Sprintf("req:%s:%v:%v:%s:%d", g.M.Method, g.M.Chunked, g.Expect100, core.BucketSize(len(g.M.Body)), len(g.M.Trailers)))
		if g.M.Chunked {
			ep.Probe("chunked")
		}
		if g.Expect100 {
			ep.Probe("expect100")
		}
		if len(g.M.Body) > 8192 {
			ep.Probe("big-body")
		}
		for _, h := range g.M.Headers {
			for _, nm := range append(append([]string{}, nearMissCL...), nearMissTE...) {
				if h.K == nm {
					ep.Probe("nearmiss")
				}
			}
		}
	}
	if o.Stream {
		ep.Probe("stream")
	}
	for i, d := range describeReqs(reqs) {
		ep.Logf("req %d: %s", i, d)
	}
	ep.Logf("config: stream=%v bufsize=%d nonorm=%v", o.Stream, o.BufSize, o.DisableNorm)
	mode := tp.Choose("pipemode", 3)
	ScriptRequests(tp, r.cl, reqs, mode)
	if n > 1 && mode != 1 {
		ep.Probe("pipelined")
	}
	r.run()
	r.checkEcho("C01", reqs, !o.DisableNorm)
	ep.Nontrivial = n >= 2 || ep.Probes["fragments"] >= 2
	if ep.Sample == nil {
		ep.Sample = map[string]interface{}{"requests": describeReqs(reqs), "stream": o.Stream, "bufsize": o.BufSize, "pipemode": mode, "fragments": ep.Probes["fragments"]}
	}
}

func describeReqs(reqs []*GenReq) []string {
	var out []string
	for _, g := range reqs {
		fr := "none"
		if g.M.Chunked {
			fr = fmt.Sprintf("chunked%v", g.M.ChunkSizes)
		} else if len(g.M.Body) > 0 {
			fr = "content-length"
		}
		out = append(out, fmt.Sprintf("%s %s %s hdrs=%d body=%dB framing=%s trailers=%d expect100=%v", g.M.Method, g.M.Target, g.M.Proto, len(g.M.Headers), len(g.M.Body), fr, len(g.M.Trailers), g.Expect100))
	}
	return out
}

func respSummary(cl *Client) string {
	s := ""
	for _, m := range cl.Resps {
		s += fmt.Sprintf("[%d %q]", m.Status, wire.Trunc(string(m.Body), 60))
	}
	return s
}
