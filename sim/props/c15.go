package props

import (
	"fmt"
	"os"
	"reflect"
	"strconv"
	"strings"
	"sync"

	"github.com/cloudwego/hertz/pkg/app/server/binding"
	"github.com/cloudwego/hertz/pkg/common/verifhook"
	"github.com/cloudwego/hertz/pkg/protocol"
	"github.com/cloudwego/hertz/pkg/route/param"

	"verifsim/core"
)

func init() {
	Registry["C15"] = RunC15
	Metas["C15"] = Meta{
		Rule: "episode = 2..5 struct types built at run time with reflect.StructOf (1..6 fields; kinds string/int/int64/uint8/bool/float64, pointers and slices; any subset of path/form/query/cookie/header/json tags; default; required) and requests placing values in subsets of the tagged sources; 2..4 tasks bind sequences of (type, request) pairs on ONE shared binder with yield points after the decoder-cache miss and before the cache store, so concurrent first uses of a type both miss, build and store in either order while hits of other types interleave; Bind / BindQuery / BindHeader / BindPath / BindForm (separate caches). Oracle: each result (bound value or error class) equals the result of a brand-new binder used alone (cold), and equals a small reference binder for the modelled field family. Non-trivial: >= 2 tasks were inside the cache-miss path of the same type at once, or a warm hit followed a cold miss of the same type in another task; distinct = abstract signature (type shapes, order of miss/store/hit events by task). Added later: defaults on pointer and slice fields, pointer/slice fields of narrow integer types with out-of-range texts (range errors in the reference model), and a scheduling point after every text decode (hook H5) so that binds interleave inside Decode, not only around the cache. Later still: required together with a default, a required tag in front of optional ones, odd integer texts, and - one episode in three - a scheduling point in front of every statement of the decoder construction (inserted yields; DESIGN 8).",
		Real: []string{"binding.defaultBinder.bindTag/bindTagWithValidate/tagCache (sync.Map per tag kind)", "decoder.GetReqDecoder/getFieldDecoder, tag lookup, getters, base/slice/text decoders", "preBindBody (encoding/json instead of sonic in this build)"},
		Stub: []string{"JSON library: encoding/json via the repository's stdjson build tag (sonic does not compile on the toolchain that provides testing/synctest)", "no network, no clock involved"},
		Assumptions: []string{
			"what is decided here is the history/schedule clause of the property (first use = later use = concurrent use); the priority rule itself is input-quantified and only cross-checked by a small reference model on the generated family",
			"values are placed only in sources that the field names in its tags (the form getter's documented fallback to the query string is not part of the model)",
		},
		RequiredProbes: []string{"yield:bindTag.miss", "yield:bindTag.store", "yield:bind.text", "concurrent-first-use", "warm-hit", "cold-miss", "required-missing", "default-used", "json-source", "path-source", "untagged-field", "empty-value", "required-with-default"},
	}
}

type c15field struct {
	name     string
	kind     int // 0 string 1 int 2 int64 3 uint8 4 bool 5 float64 6 *int 7 []string
	tags     []string
	key      string
	def      string
	required bool
	untagged bool
}

var c15Sources = []string{"path", "form", "query", "cookie", "header", "json"}

type c15type struct {
	fields      []c15field
	rt          reflect.Type
	hasUntagged bool
}

type c15req struct {
	vals map[string]map[string]string // source -> key -> text
}

func c15GenType(tp *core.Tape, ti int) *c15type {
	t := &c15type{}
	nf := 1 + tp.Choose("nfields", 6)
	var sf []reflect.StructField
	for i := 0; i < nf; i++ {
		f := c15field{name: fmt.Sprintf("F%d", i), key: fmt.Sprintf("K%d", i), kind: tp.Choose("kind", 10)}
		if tp.Chance("untagged", 1, 6) {
			// no source tag at all: every source is tried under the field's own name
			f.untagged = true
			f.key = f.name
			f.tags = []string{"path", "form", "query", "cookie", "header", "json"}
			var ft reflect.Type
			switch f.kind {
			case 0:
				ft = reflect.TypeOf("")
			case 4:
				ft = reflect.TypeOf(false)
			case 5:
				ft = reflect.TypeOf(float64(0))
			default:
				f.kind = 1
				ft = reflect.TypeOf(int(0))
			}
			sf = append(sf, reflect.StructField{Name: f.name, Type: ft, Tag: reflect.StructTag(fmt.Sprintf(`sim:"t%d"`, ti))})
			t.fields = append(t.fields, f)
			t.hasUntagged = true
			continue
		}
		nt := 1 + tp.Choose("ntags", 3)
		used := map[string]bool{}
		for k := 0; k < nt; k++ {
			s := c15Sources[tp.Choose("src", len(c15Sources))]
			if !used[s] {
				used[s] = true
				f.tags = append(f.tags, s)
			}
		}
		if tp.Chance("default", 1, 5) {
			f.def = []string{"dflt", "7", "7", "7", "true", "1.5", "7", "['d1','d2']", "7", "[7]"}[f.kind]
		}
		if f.def == "" {
			f.required = tp.Chance("required", 1, 6)
		} else if tp.Chance("reqdef", 1, 3) {
			// required together with a default: the value still has to be present ("a missing required value is an error")
			f.required = true
		}
		noname := tp.Chance("noname", 1, 6)
		if noname {
			f.key = f.name // a source tag without a name: the field's own name is the key
		}
		// "required" on every source tag, or (fields without a json tag) on the first one only
		firstOnly := f.required && !used["json"] && tp.Chance("reqfirst", 1, 2)
		reqDone := false
		var tag []string
		for _, s := range c15Sources {
			if used[s] {
				v := f.key
				if noname {
					v = ""
				}
				if f.required && (!firstOnly || !reqDone) {
					v += ",required"
					reqDone = true
				}
				tag = append(tag, fmt.Sprintf(`%s:"%s"`, s, v))
			}
		}
		if f.def != "" {
			tag = append(tag, "default:"+strconv.Quote(f.def))
		}
		var ft reflect.Type
		switch f.kind {
		case 0:
			ft = reflect.TypeOf("")
		case 1:
			ft = reflect.TypeOf(int(0))
		case 2:
			ft = reflect.TypeOf(int64(0))
		case 3:
			ft = reflect.TypeOf(uint8(0))
		case 4:
			ft = reflect.TypeOf(false)
		case 5:
			ft = reflect.TypeOf(float64(0))
		case 6:
			ft = reflect.PtrTo(reflect.TypeOf(int(0)))
		case 7:
			ft = reflect.TypeOf([]string{})
		case 8:
			ft = reflect.PtrTo(reflect.TypeOf(int8(0)))
		case 9:
			ft = reflect.TypeOf([]uint16{})
		}
		// a per-type marker in the tag makes every generated type distinct
		tag = append(tag, fmt.Sprintf(`sim:"t%d"`, ti))
		sf = append(sf, reflect.StructField{Name: f.name, Type: ft, Tag: reflect.StructTag(strings.Join(tag, " "))})
		t.fields = append(t.fields, f)
	}
	t.rt = reflect.StructOf(sf)
	return t
}

func c15Text(kind int, tp *core.Tape, salt int) string {
	switch kind {
	case 0, 7:
		return fmt.Sprintf("s%d", salt)
	case 1, 2, 6:
		return fmt.Sprint(salt*3 + 1)
	case 3:
		return fmt.Sprint(salt % 200)
	case 8: // *int8: in and out of range
		return []string{"5", "-7", "127", "128", "300", "-129", "-128"}[salt%7]
	case 9: // []uint16
		return []string{"1", "65535", "65536", "70000", "0"}[salt%5]
	case 4:
		return []string{"true", "false"}[salt%2]
	default:
		return fmt.Sprintf("%d.25", salt)
	}
}

func c15GenReq(tp *core.Tape, t *c15type, ri int) *c15req {
	r := &c15req{vals: map[string]map[string]string{}}
	for i, f := range t.fields {
		for si, s := range f.tags {
			if tp.Chance("place", 1, 2) {
				if r.vals[s] == nil {
					r.vals[s] = map[string]string{}
				}
				r.vals[s][f.key] = c15Text(f.kind, tp, ri*100+i*10+si)
				if (f.kind == 1 || f.kind == 2) && s != "json" && tp.Chance("oddint", 1, 8) {
					// decimal texts only: a leading zero is still decimal, prefixes and separators are errors
					r.vals[s][f.key] = []string{"010", "08", "0x10", "1_000", "-019", "0b11"}[tp.Choose("oddintv", 6)]
				}
				if f.kind == 0 && s != "path" && s != "json" && tp.Chance("emptyval", 1, 6) {
					r.vals[s][f.key] = "" // present but empty: still the value of that source
				}
			}
		}
	}
	return r
}

func (r *c15req) build(t *c15type) (*protocol.Request, param.Params) {
	req := protocol.AcquireRequest()
	uri := "http://h/p"
	var q []string
	for _, f := range t.fields {
		if v, ok := r.vals["query"][f.key]; ok {
			q = append(q, f.key+"="+v)
		}
	}
	if len(q) > 0 {
		uri += "?" + strings.Join(q, "&")
	}
	req.SetRequestURI(uri)
	req.Header.SetMethod("POST")
	var ps param.Params
	for _, f := range t.fields {
		if v, ok := r.vals["path"][f.key]; ok {
			ps = append(ps, param.Param{Key: f.key, Value: v})
		}
		if v, ok := r.vals["header"][f.key]; ok {
			req.Header.Set(f.key, v)
		}
		if v, ok := r.vals["cookie"][f.key]; ok {
			req.Header.SetCookie(f.key, v)
		}
	}
	if len(r.vals["json"]) > 0 {
		var parts []string
		for _, f := range t.fields {
			if v, ok := r.vals["json"][f.key]; ok {
				switch f.kind {
				case 0:
					parts = append(parts, fmt.Sprintf("%q:%q", f.key, v))
				case 7:
					parts = append(parts, fmt.Sprintf("%q:[%q]", f.key, v))
				case 9:
					parts = append(parts, fmt.Sprintf("%q:[%s]", f.key, v))
				default:
					parts = append(parts, fmt.Sprintf("%q:%s", f.key, v))
				}
			}
		}
		req.Header.SetContentTypeBytes([]byte("application/json"))
		req.SetBody([]byte("{" + strings.Join(parts, ",") + "}"))
		req.Header.SetContentLength(len(req.Body())) // as a request parsed by the server has it
	} else if len(r.vals["form"]) > 0 {
		for _, f := range t.fields {
			if v, ok := r.vals["form"][f.key]; ok {
				req.PostArgs().Add(f.key, v)
			}
		}
		req.Header.SetContentTypeBytes([]byte("application/x-www-form-urlencoded"))
		req.SetBody(req.PostArgs().QueryString())
		req.Header.SetContentLength(len(req.Body()))
	}
	return req, ps
}

// c15Bind runs one bind and renders the outcome.
func c15Bind(b binding.Binder, t *c15type, r *c15req, api int) string {
	req, ps := r.build(t)
	released := false
	defer func() {
		if !released {
			protocol.ReleaseRequest(req)
		}
	}()
	obj := reflect.New(t.rt)
	var err error
	func() {
		defer func() {
			if p := recover(); p != nil {
				err = fmt.Errorf("PANIC %v", p)
			}
		}()
		switch api {
		case 0:
			err = b.Bind(req, obj.Interface(), ps)
		case 1:
			err = b.BindQuery(req, obj.Interface())
		case 2:
			err = b.BindHeader(req, obj.Interface())
		case 3:
			err = b.BindPath(req, obj.Interface(), ps)
		case 4:
			err = b.BindForm(req, obj.Interface())
		}
	}()
	if err != nil {
		msg := err.Error()
		if i := strings.IndexByte(msg, '\n'); i > 0 {
			msg = msg[:i]
		}
		return "ERR " + msg
	}
	// the bound struct outlives the request: the request object is recycled and filled with another request
	// before the result is looked at
	protocol.ReleaseRequest(req)
	released = true
	junk := protocol.AcquireRequest()
	junk.SetRequestURI("http://h/p?K0=JUNKJUNK&K1=JUNKJUNK&K2=JUNKJUNK&K3=JUNKJUNK&K4=JUNKJUNK&K5=JUNKJUNK")
	for i := 0; i < 6; i++ {
		junk.Header.Set(fmt.Sprintf("K%d", i), "JUNKJUNKJUNKJUNK")
		junk.Header.SetCookie(fmt.Sprintf("K%d", i), "JUNKJUNKJUNKJUNK")
	}
	junk.SetBody([]byte(`{"K0":"JUNK","K1":"JUNK","K2":"JUNK","K3":"JUNK"}`))
	defer protocol.ReleaseRequest(junk)
	var sb strings.Builder
	v := obj.Elem()
	for i := 0; i < v.NumField(); i++ {
		f := v.Field(i)
		if f.Kind() == reflect.Ptr {
			if f.IsNil() {
				sb.WriteString("nil;")
			} else {
				fmt.Fprintf(&sb, "&%v;", f.Elem().Interface())
			}
			continue
		}
		fmt.Fprintf(&sb, "%v;", f.Interface())
	}
	// ... and is the caller's: writing through its pointers and slices must not reach any later bind
	for i := 0; i < v.NumField(); i++ {
		f := v.Field(i)
		switch {
		case f.Kind() == reflect.Ptr && !f.IsNil() && f.Elem().CanInt():
			f.Elem().SetInt(99)
		case f.Kind() == reflect.Slice && f.Len() > 0 && f.Index(0).Kind() == reflect.String:
			f.Index(0).SetString("scribbled")
		case f.Kind() == reflect.Slice && f.Len() > 0 && f.Index(0).CanUint():
			f.Index(0).SetUint(9)
		}
	}
	return sb.String()
}

// c15Model: the documented rule for the modelled family, api 0 (Bind) only.
// Returns "" when the case is outside the model.
func c15Model(t *c15type, r *c15req) string {
	if t.hasUntagged {
		return "" // untagged fields follow the default-tag rules, outside the small model
	}
	for _, f := range t.fields {
		if f.def != "" && (f.kind == 6 || f.kind == 7 || f.kind == 8 || f.kind == 9) {
			return "" // defaults of pointer and slice fields: judged by the differential oracle only
		}
	}
	jsonPresent := len(r.vals["json"]) > 0
	formPresent := len(r.vals["form"]) > 0
	// the JSON body is decoded into the struct as a whole first: a number that does not fit its field fails the bind,
	// whichever source would win for that field
	for _, f := range t.fields {
		if v, ok := r.vals["json"][f.key]; ok {
			if f.kind == 8 {
				if _, err := strconv.ParseInt(v, 10, 8); err != nil {
					return "ERR"
				}
			}
			if f.kind == 9 {
				if _, err := strconv.ParseUint(v, 10, 16); err != nil {
					return "ERR"
				}
			}
		}
	}
	var sb strings.Builder
	for _, f := range t.fields {
		text, found := "", false
		for _, s := range c15Sources {
			tagged := false
			for _, tg := range f.tags {
				tagged = tagged || tg == s
			}
			if !tagged {
				continue
			}
			if s == "form" && jsonPresent {
				continue // the body is JSON, no form was sent
			}
			if s == "json" && !jsonPresent {
				continue
			}
			_ = formPresent
			if v, ok := r.vals[s][f.key]; ok {
				text, found = v, true
				break
			}
		}
		if found && text == "" && f.def != "" {
			text = f.def // hertz substitutes the declared default for an empty text as well
		}
		if !found {
			if f.required {
				return "ERR"
			}
			text = f.def
			if text == "" {
				switch f.kind {
				case 0:
					sb.WriteString(";")
				case 4:
					sb.WriteString("false;")
				case 6, 8:
					sb.WriteString("nil;")
				case 7, 9:
					sb.WriteString("[];")
				default:
					sb.WriteString("0;")
				}
				continue
			}
		}
		// the usual Go text rules: decimal integers; a number that does not fit the field's type is an error, never a wrapped value
		if f.kind == 1 || f.kind == 2 {
			bits := 0
			if f.kind == 2 {
				bits = 64
			}
			n, err := strconv.ParseInt(text, 10, bits)
			if err != nil {
				return "ERR"
			}
			text = strconv.FormatInt(n, 10)
		}
		if f.kind == 8 {
			if _, err := strconv.ParseInt(text, 10, 8); err != nil {
				return "ERR"
			}
		}
		if f.kind == 9 {
			if _, err := strconv.ParseUint(text, 10, 16); err != nil {
				return "ERR"
			}
		}
		switch f.kind {
		case 6, 8:
			sb.WriteString("&" + text + ";")
		case 7, 9:
			sb.WriteString("[" + text + "];")
		default:
			sb.WriteString(text + ";")
		}
	}
	return sb.String()
}

func RunC15(ep *core.Episode) {
	tp := ep.Tape
	S := ep.S
	nt := 2 + tp.Choose("ntypes", 4)
	var types []*c15type
	for i := 0; i < nt; i++ {
		types = append(types, c15GenType(tp, i))
	}
	mk := func() binding.Binder { return binding.NewDefaultBinder(binding.NewBindConfig()) }
	shared := mk()

	type job struct {
		t    *c15type
		ti   int
		r    *c15req
		api  int
		want string
	}
	// 3..8: as 0..2, and the statement-level yields the driver inserts into the binder's decoder construction are honoured
	ntk := tp.Choose("ntasks", 9)
	ntasks := 2 + ntk%3
	astOn := ntk >= 3 && os.Getenv("VSIM_AST_OFF") == ""
	// an episode honours a window of 150 (one in three: 600) consecutive inserted yields
	astFrom, astTo, astSeen := 0, 0, 0
	if astOn {
		astFrom = tp.Choose("astfrom", 800)
		astTo = astFrom + 150
		if ntk >= 6 {
			astTo = astFrom + 600
		}
	}
	plans := make([][]*job, ntasks)
	for k := 0; k < ntasks; k++ {
		nj := 2 + tp.Choose("njobs", 5)
		for j := 0; j < nj; j++ {
			ti := tp.Choose("jt", nt)
			if tp.Choose("sametype", 2) == 0 {
				ti = 0 // bias towards concurrent first use of the same type
			}
			jb := &job{t: types[ti], ti: ti, api: tp.Weighted("api", []int{6, 1, 1, 1, 1})}
			jb.r = c15GenReq(tp, jb.t, k*10+j)
			// reference: a brand-new binder, used alone (cold)
			jb.want = c15Bind(mk(), jb.t, jb.r, jb.api)
			if jb.api == 0 {
				if m := c15Model(jb.t, jb.r); m != "" {
					got := jb.want
					if strings.HasPrefix(got, "ERR") {
						got = "ERR"
					}
					if got != m {
						ep.Fail("C15.model", "type %v request %v: binder (cold, alone) gives %q, the priority rule gives %q", jb.t.rt, jb.r.vals, jb.want, m)
						return
					}
					if m == "ERR" {
						ep.Probe("required-missing")
					}
				}
			}
			for _, f := range jb.t.fields {
				if f.def != "" && f.required {
					ep.Probe("required-with-default")
				}
				if f.def != "" {
					ep.Probe("default-used")
				}
			}
			if len(jb.r.vals["json"]) > 0 {
				ep.Probe("json-source")
			}
			if jb.t.hasUntagged {
				ep.Probe("untagged-field")
			}
			for _, mm := range jb.r.vals {
				for _, v := range mm {
					if v == "" {
						ep.Probe("empty-value")
					}
				}
			}
			if len(jb.r.vals["path"]) > 0 {
				ep.Probe("path-source")
			}
			plans[k] = append(plans[k], jb)
		}
	}
	// yield hook + reach tracking
	var hmu sync.Mutex
	inMiss := map[interface{}]int{}
	stored := map[interface{}]bool{}
	concurrentFirst := false
	verifhook.OnYield = func(site string, obj interface{}) {
		if strings.HasPrefix(site, "ast") {
			if !astOn {
				return
			}
			if site == "ast-lock" {
				S.Yield(site)
				return
			}
			astSeen++ // (counting is cheap, asking the scheduler who is calling is not)
			if astSeen > astFrom && astSeen <= astTo && S.Known() {
				ep.ProbeN("inserted-yield-taken", 1)
				S.Yield(site)
			}
			return
		}
		ep.Probe("yield:" + site)
		t := S.Current(site)
		ep.Sig(site + "@" + t.Name)
		hmu.Lock()
		switch site {
		case "bindTag.miss":
			inMiss[obj]++
			if inMiss[obj] >= 2 {
				concurrentFirst = true
			}
			ep.Probe("cold-miss")
		case "bindTag.store":
			inMiss[obj]--
			stored[obj] = true
		}
		hmu.Unlock()
		S.Yield(site)
	}
	ep.OnDrained(func() { verifhook.OnYield = nil })
	var tasks []*core.Task
	for k := 0; k < ntasks; k++ {
		k := k
		tasks = append(tasks, S.Go(fmt.Sprintf("binder-%d", k), func() {
			for j, jb := range plans[k] {
				if ep.Failed() {
					return
				}
				S.Yield("before-bind")
				got := c15Bind(shared, jb.t, jb.r, jb.api)
				ep.Logf("  binder-%d job %d type %d api %d -> %s", k, j, jb.ti, jb.api, got)
				if strings.HasPrefix(got, "ERR PANIC") {
					ep.Fail("C15.panic", "bind panicked on the shared binder: %s (type %v)", got, jb.t.rt)
					return
				}
				if got != jb.want {
					ep.Fail("C15.stable", "type %v api %d request %v: shared binder gives %q, a brand-new binder used alone gives %q", jb.t.rt, jb.api, jb.r.vals, got, jb.want)
					return
				}
			}
		}))
	}
	res := S.Run(func() bool {
		for _, t := range tasks {
			if !t.Done {
				return false
			}
		}
		return true
	})
	for _, t := range tasks {
		if t.Panic != nil {
			if PanicInHertz(t.Stack) {
				ep.Fail("C15.panic", "panic in hertz: %v at %s", t.Panic, panicTop(t.Stack))
			} else {
				ep.Infra = fmt.Sprintf("harness panic: %v\n%s", t.Panic, t.Stack)
			}
			return
		}
	}
	if res == core.RunStepCap {
		ep.Infra = "step cap"
		return
	}
	if res == core.RunDeadlock {
		ep.Fail("C15.stable", "a bind never returned: %s", S.Describe())
		return
	}
	if concurrentFirst {
		ep.Probe("concurrent-first-use")
	}
	if len(stored) > 0 {
		ep.Probe("warm-hit")
	}
	ep.Nontrivial = concurrentFirst || len(stored) > 0
	var shapes []string
	for _, t := range types {
		shapes = append(shapes, t.rt.String())
	}
	if len(shapes) > 2 {
		shapes = shapes[:2]
	}
	ep.Sample = map[string]interface{}{"types": nt, "tasks": ntasks, "first_type": shapes, "concurrent_first_use": concurrentFirst}
}
