package props

import (
	"context"
	"fmt"
	"net"
	"os"
	"strings"
	"sync"
	"time"

	"github.com/cloudwego/hertz/pkg/app"
	"github.com/cloudwego/hertz/pkg/app/server"
	"github.com/cloudwego/hertz/pkg/common/config"
	"github.com/cloudwego/hertz/pkg/common/verifhook"
	"github.com/cloudwego/hertz/pkg/network"
	"github.com/cloudwego/hertz/pkg/network/standard"
	"github.com/cloudwego/hertz/pkg/route"

	"verifsim/core"
	"verifsim/wire"
)

func init() {
	Registry["C18"] = RunC18
	Metas["C18"] = Meta{
		Rule: "episode = real route.Engine.Run on the real standard transport accept loop over a simulated listener (hook H3), 1..6 simulated client connections whose state at the moment of shutdown is decided by the scheduler (idle keep-alive, header partly delivered, body partly delivered, handler running at a gate, response written), ExitWaitTimeout short/long, IdleTimeout 0/short/long, 0..3 OnShutdown hooks (instant / shorter / longer than the wait), Shutdown called once, twice, before Run, after Run returned; new dials before/after. Fake clock. Non-trivial: >= 1 connection open or handler running when Shutdown is called; distinct = abstract signature (connection-state vector at the flip, order of flip / listener close / handler returns / Shutdown return, config). Added later: a failing listen (Run returns on its own, Shutdown afterwards), slow readers (write backpressure, so shutdown can begin while a response is being written), handlers that set the Connection header themselves, and the oracle that a request which had arrived completely on an accepted connection, with everything before it answered and no handler running, is handled when Shutdown returns nil before the wait expires. Later still: dials while a shutdown drains, and - one episode in four - the server run and stopped through Hertz.Spin with a custom signal waiter after a drawn uptime.",
		Real: []string{"route.Engine.Run/Shutdown/executeOnShutdownHooks/MarkAsRunning/IsRunning", "standard.transport.serve/Shutdown/updateActive (accept loop, active counter, ticker wait)", "http1.Server.Serve exit check", "standard.Conn"},
		Stub: []string{"listener + TCP (SimListener via hook H3, SimConn)", "clients (scripted actors)", "clock (synctest)"},
		Assumptions: []string{
			"standard transport only (netpoll's Shutdown is not simulated)",
			"the window between the status load and the CAS inside Engine.Shutdown contains no park point; a second Shutdown is only judged when it starts after the first one has begun",
			"the OS signal itself is not simulated: Hertz.Spin runs with a custom signal waiter (SetCustomSignalWaiter) that returns when the scenario says so",
		},
		RequiredProbes: []string{"conn-idle-at-shutdown", "conn-handler-running-at-shutdown", "conn-mid-request-at-shutdown", "hook-slow", "hook-beyond-deadline", "second-shutdown", "shutdown-before-run", "dial-after-shutdown", "wait-expired", "returned-early", "close-hdr-checked", "slow-accept-callback", "request-received-before-shutdown", "pipelined-request-received-before-shutdown", "listen-error", "slow-reader", "write-backpressure", "handler-sets-connection", "client-rst-during-handler", "dial-during-drain", "spin"},
	}
}

func RunC18(ep *core.Episode) {
	tp := ep.Tape
	S := ep.S
	nw := core.NewNet(ep)
	ln := nw.NewListener("ln")
	// fault: the listen call fails (address in use), Run returns on its own and Shutdown comes afterwards
	listenFail := tp.Chance("listenfail", 1, 12)
	if listenFail {
		ln.Close() // nothing ever listens: dials are refused
	}
	standard.VerifListen = func(network, addr string) (net.Listener, error) {
		if listenFail {
			ep.Fault("listen-error")
			return nil, &net.OpError{Op: "listen", Net: "tcp", Err: fmt.Errorf("address already in use")}
		}
		return ln, nil
	}
	ep.OnDrained(func() { standard.VerifListen = nil })

	exitWait := tp.PickDur("exitwait", 50*time.Millisecond, 5*time.Second)
	idleT := tp.PickDur("idle", 0, 20*time.Millisecond, 30*time.Second)
	opts := config.NewOptions(nil)
	opts.TransporterNewer = standard.NewTransporter
	opts.ExitWaitTimeout = exitWait
	opts.IdleTimeout = idleT
	opts.ReadTimeout = 0
	opts.DisablePrintRoute = true
	// the transport watches for clients that go away while their handler runs (a second goroutine per connection)
	sense := tp.Chance("sensedisc", 1, 4)
	opts.SenseClientDisconnection = sense
	// connection callbacks that take time: a connection can be accepted but not yet handed to its goroutine
	cbDelay := tp.PickDur("cbdelay", 0, 0, 15*time.Millisecond)
	if cbDelay > 0 {
		ep.Probe("slow-accept-callback")
		if tp.Choose("cbkind", 2) == 0 {
			opts.OnAccept = func(conn net.Conn) context.Context {
				time.Sleep(cbDelay)
				S.Yield("after-onaccept")
				return context.Background()
			}
		} else {
			opts.OnConnect = func(ctx context.Context, conn network.Conn) context.Context {
				time.Sleep(cbDelay)
				S.Yield("after-onconnect")
				return ctx
			}
		}
	}
	eng := route.NewEngine(opts)

	var hmu sync.Mutex
	shutdownCalled := false
	var shutdownAt time.Time
	type hstat struct {
		conn          string
		returned      bool
		afterShutdown bool // handler returned after shutdown began
	}
	handled := map[string][]*hstat{}
	running := 0
	eng.Any("/*any", func(c context.Context, ctx *app.RequestContext) {
		name := string(ctx.Request.Header.Peek("X-Conn"))
		hs := &hstat{conn: name}
		hmu.Lock()
		handled[name] = append(handled[name], hs)
		running++
		hmu.Unlock()
		S.Yield("handler-gate") // the scheduler decides when the handler finishes
		if tp.Choose("hsleep", 4) == 0 {
			time.Sleep(5 * time.Millisecond)
			S.Yield("handler-after-sleep") // sleepers wake at the same instant: serialise them again
		}
		hmu.Lock()
		called := shutdownCalled
		hmu.Unlock()
		// "after shutdown began": a Shutdown call has been made and the engine has left the running state (between the
		// call and the flip of the status nothing distinguishes the two orders)
		after := called && !eng.IsRunning()
		hmu.Lock()
		running--
		hs.returned = true
		hs.afterShutdown = after
		hmu.Unlock()
		ctx.SetStatusCode(200)
		ctx.Response.SetBodyString("done " + name)
		if tp.Choose("hconn", 6) == 0 {
			// a handler that sets the Connection header itself (what a reverse proxy copying upstream headers does)
			ctx.Response.Header.Set("Connection", "keep-alive")
			ep.Probe("handler-sets-connection")
		}
	})
	// hooks
	// 4..7: as 0..3 hooks, and the statement-level yields the driver inserts into the standard transport are honoured
	// while the server starts up (until its accept loop waits for the first connection): Run against an early Shutdown.
	// Afterwards the oracles' notion of "the instant Shutdown was called" needs the call to be one step.
	nhk := tp.Choose("nhooks", 8)
	nhooks := nhk % 4
	if nhk >= 4 && os.Getenv("VSIM_AST_OFF") == "" {
		startedUp := false
		verifhook.OnYield = func(site string, obj interface{}) {
			if !strings.HasPrefix(site, "ast") {
				return
			}
			// a lock wait is always a scheduling point: the holder may still be parked at an earlier yield
			if site == "ast-lock" {
				S.Yield(site)
				return
			}
			if startedUp {
				return
			}
			if ln.HasAcceptor() {
				startedUp = true
				return
			}
			if S.Known() {
				ep.ProbeN("inserted-yield-taken", 1)
				S.Yield(site)
			}
		}
		ep.OnDrained(func() { verifhook.OnYield = nil })
	}
	hookCalls := make([]int, nhooks)
	hookDone := make([]int, nhooks)       // hooks that ran to their end
	hookCancelled := make([]bool, nhooks) // the hook's context was cancelled while it ran
	var hookDur []time.Duration
	for i := 0; i < nhooks; i++ {
		i := i
		d := tp.PickDur("hookdur", 0, exitWait/2, exitWait*2)
		hookDur = append(hookDur, d)
		if d > 0 && d < exitWait {
			ep.Probe("hook-slow")
		}
		if d > exitWait {
			ep.Probe("hook-beyond-deadline")
		}
		eng.OnShutdown = append(eng.OnShutdown, func(ctx context.Context) {
			hmu.Lock()
			hookCalls[i]++
			hmu.Unlock()
			if d > 0 {
				time.Sleep(d)
			}
			hmu.Lock()
			hookDone[i]++
			hookCancelled[i] = ctx.Err() != nil
			hmu.Unlock()
		})
	}

	// scenario switches
	// 11: Shutdown before Run; 12..15: the server is run and shut down through Hertz.Spin with a custom signal waiter
	brk := tp.Choose("shutdown-before-run", 16)
	beforeRun := brk == 11
	spin := brk >= 12 && !listenFail
	uptime := time.Duration(0)
	if spin {
		ep.Probe("spin")
		uptime = tp.PickDur("uptime", 0, exitWait/2, exitWait*2)
	}
	second := tp.Chance("second", 1, 3)

	if beforeRun {
		ep.Probe("shutdown-before-run")
		err := eng.Shutdown(context.Background())
		if err == nil {
			ep.Fail("C18.second", "Shutdown of an engine that was never started returned nil")
			return
		}
	}

	var runErr error
	runReturned := false
	runTask := S.Go("run", func() {
		if spin {
			runReturned = true // Spin runs the engine itself
			return
		}
		runErr = eng.Run()
		S.Yield("after-run")
		runReturned = true
	})

	// clients
	nconn := tp.Choose("nconn", 7)
	type cst struct {
		name    string
		cl      *Client
		sc      *SrvConn
		nreq    int
		reqEnds []int // offset in the client's byte stream at which request k ends
		owed    int   // index of the request the server owed an answer when Shutdown was called (-1: none)
		slow    bool  // the client takes the response bytes in small pieces: the server's writes block
		aborted bool  // fault: the client reset the connection while its handler was running
	}
	var conns []*cst
	dialClient := func(i int) *cst {
		name := fmt.Sprintf("c%d", i)
		b := ln.Dial(name)
		if b == nil {
			return nil
		}
		sc := &SrvConn{Name: name, A: b.Peer, B: b}
		cl := NewClient(ep, sc)
		nreq := 1 + tp.Choose("nreq", 3)
		var ends []int
		for k := 0; k < nreq; k++ {
			m := &wire.Msg{Proto: "HTTP/1.1", Method: "POST", Target: fmt.Sprintf("/%s/%d", name, k), Headers: []wire.Header{{K: "Host", V: "h"}, {K: "X-Conn", V: name}}}
			m.Body = core.PatternBytes(byte(k), 5+tp.Choose("blen", 200))
			data, bounds := m.Encode()
			head := strings.Index(string(data), "\r\n\r\n") + 4
			after := 0
			if tp.Choose("pingpong", 2) == 1 {
				after = k
			}
			cl.Methods = append(cl.Methods, "POST")
			cl.Sends = append(cl.Sends, Send{Data: data[:head], AfterResps: after, Bounds: bounds, Label: "head"}, Send{Data: data[head:], Label: "body"})
			if k > 0 {
				ends = append(ends, ends[k-1]+len(data))
			} else {
				ends = append(ends, len(data))
			}
		}
		cl.CloseWhenDone = tp.Choose("closewhendone", 3) > 0 // some clients keep the idle connection open
		c := &cst{name: name, cl: cl, sc: sc, nreq: nreq, reqEnds: ends, owed: -1}
		if tp.Chance("slowreader", 1, 4) {
			c.slow = true
			sc.A.Out.Cap = tp.Pick("slowcap", 16, 64, 120)
			ep.Probe("slow-reader")
		}
		return c
	}
	for i := 0; i < nconn; i++ {
		if c := dialClient(i); c != nil {
			conns = append(conns, c)
		}
	}

	// the shutdown call(s)
	var hookDoneAtReturn []int
	var hookCancelledAtReturn []bool
	var shutErr, shutErr2 error
	var shutDur time.Duration
	shutReturned := false
	nilReturned := false // a Shutdown call of a running engine has returned nil: the shutdown is complete
	secondStartedAfter := false
	_ = secondStartedAfter
	activeAtShutdown := 0
	firstWasRunning, secondWasRunning := false, false
	var stillOpen []string
	shutTask := S.Go("shutdown", func() {
		var t0 time.Time
		preFlip := func() {
			// the main shutdown call waits until the engine is up (or, when listening fails, until Run has given up)
			for i := 0; i < 400 && !eng.IsRunning() && !(listenFail && runReturned); i++ {
				S.Yield("wait-until-running")
			}
			firstWasRunning = eng.IsRunning()
			hmu.Lock()
			shutdownCalled = true
			shutdownAt = time.Now()
			activeAtShutdown = ln.Accepted
			hmu.Unlock()
			// classify connection states at the flip (reach measure)
			var vec []string
			for _, c := range conns {
				st := "idle"
				hmu.Lock()
				h := len(handled[c.name])
				hmu.Unlock()
				switch {
				case c.sc.A.IsClosed():
					st = "closed"
				case c.cl.next == 0 && c.sc.A.In.Total == 0:
					st = "unsent"
				case running > 0 && h > len(c.cl.Resps):
					st = "handler"
					ep.Probe("conn-handler-running-at-shutdown")
				case c.sc.A.In.Total > 0 && h == len(c.cl.Resps) && c.sc.A.In.Total < c.cl.sentBytes || c.sc.A.InflightTo() > 0:
					st = "midreq"
					ep.Probe("conn-mid-request-at-shutdown")
				default:
					ep.Probe("conn-idle-at-shutdown")
				}
				vec = append(vec, st)
				// what the server owes this connection at this instant: the next request, if all of it has been
				// delivered to an accepted connection, every earlier one is answered and no handler is running
				// (a handler that returns after the flip ends the connection by design)
				accepted := false
				for _, ac := range ln.AcceptedConns {
					accepted = accepted || ac == c.sc.A
				}
				hmu.Lock()
				hh := handled[c.name]
				doneBefore := 0
				for _, x := range hh {
					if x.returned {
						doneBefore++
					}
				}
				if accepted && idleT > 0 && doneBefore == len(hh) && doneBefore < c.nreq && c.reqEnds[doneBefore] <= c.sc.A.ArrivedTo() && !c.sc.A.IsClosed() && !c.sc.B.IsClosed() {
					c.owed = doneBefore
					ep.Probe("request-received-before-shutdown")
					if doneBefore > 0 {
						ep.Probe("pipelined-request-received-before-shutdown")
					}
				}
				hmu.Unlock()
			}
			ep.Sig("flip:" + strings.Join(vec, ","))
			ep.Logf("  shutdown begins; connection states %v", vec)
			t0 = time.Now()
		}
		if spin {
			// Spin starts Run, waits for the "signal" (the waiter returns) and calls Shutdown with the exit wait time;
			// it reports nothing: its return stands for a Shutdown that returned nil
			h := &server.Hertz{Engine: eng}
			h.SetCustomSignalWaiter(func(errCh chan error) error {
				go func() { <-errCh }() // Run's result, once it ends
				if uptime > 0 {
					time.Sleep(uptime)
					S.Yield("uptime-over")
				}
				preFlip()
				return nil
			})
			h.Spin()
		} else {
			preFlip()
			shutErr = eng.Shutdown(context.Background())
		}
		shutDur = time.Since(t0)
		hmu.Lock()
		hookDoneAtReturn = append([]int(nil), hookDone...)
		hookCancelledAtReturn = append([]bool(nil), hookCancelled...)
		hmu.Unlock()
		// returning nil before the wait expired claims that every accepted connection is finished
		// (with Spin and a second call racing it, which of the two shut the engine down is only known at the end)
		spinRace := spin && second && secondWasRunning
		if shutErr == nil && firstWasRunning && shutDur < exitWait && !spinRace {
			for _, ac := range ln.AcceptedConns {
				if !ac.IsClosed() && !ac.Peer.IsClosed() {
					stillOpen = append(stillOpen, ac.Name)
				}
			}
		}
		S.Yield("after-shutdown")
		shutReturned = true
		if shutErr == nil && firstWasRunning && !spinRace {
			nilReturned = true
		}
		ep.Logf("  shutdown returned %v after %v", shutErr, shutDur)
		ep.Sig("shutdown-returned")
	})
	var secondTask *core.Task
	if second {
		secondTask = S.Go("shutdown2", func() {
			secondWasRunning = eng.IsRunning()
			hmu.Lock()
			secondStartedAfter = shutdownCalled
			if secondWasRunning && !shutdownCalled {
				shutdownCalled = true
				shutdownAt = time.Now()
			}
			hmu.Unlock()
			shutErr2 = eng.Shutdown(context.Background())
			S.Yield("after-shutdown2")
			if shutErr2 == nil && secondWasRunning {
				nilReturned = true
			}
			ep.Logf("  second shutdown (engine running at call: %v) returned %v", secondWasRunning, shutErr2)
		})
		ep.Probe("second-shutdown")
	}
	// slow readers take what the server wrote piece by piece
	S.AddSource(core.SourceFunc(func(add func(core.Event)) {
		for _, c := range conns {
			c := c
			if !c.slow || c.sc.B.IsClosed() {
				continue
			}
			if k := c.sc.B.InflightTo(); k > 0 {
				add(core.Event{Key: "accept " + c.name, Weight: 8, Apply: func() {
					c.sc.B.AcceptFromWriter(1 + tp.Choose("acck", k))
					ep.Fault("write-backpressure")
				}})
			}
		}
	}))
	// fault: a client goes away (RST) while its handler is running
	if sense || tp.Chance("clientabort", 1, 4) {
		aborts := 0
		S.AddSource(core.SourceFunc(func(add func(core.Event)) {
			if aborts >= 2 {
				return
			}
			for _, c := range conns {
				c := c
				hmu.Lock()
				hh := handled[c.name]
				inHandler := len(hh) > 0 && !hh[len(hh)-1].returned
				hmu.Unlock()
				if inHandler && !c.aborted && !c.sc.B.IsClosed() {
					add(core.Event{Key: "client-abort " + c.name, Weight: 1, Apply: func() {
						aborts++
						c.aborted = true
						c.sc.B.Reset()
						ep.Fault("client-rst-during-handler")
					}})
				}
			}
		}))
	}
	// late dials
	lateDials := 0
	drainDials := 0
	S.AddSource(core.SourceFunc(func(add func(core.Event)) {
		// one more dial reserved for the time a shutdown is draining
		hmu.Lock()
		inDrain := shutdownCalled && firstWasRunning && !beforeRun && !shutReturned && time.Now().After(shutdownAt)
		hmu.Unlock()
		if inDrain && drainDials < 1 {
			add(core.Event{Key: "drain-dial", Weight: 3, Apply: func() {
				drainDials++
				ep.Probe("dial-during-drain")
				if c := dialClient(200); c != nil {
					ep.Fail("C18.no-accept", "a connection could be established %v after Shutdown had been called (while it was still draining)", time.Since(shutdownAt))
				}
			}})
		}
		if lateDials < 2 && (shutdownCalled || ln.Accepted > 0) {
			add(core.Event{Key: fmt.Sprintf("late-dial %d", lateDials), Weight: 2, Apply: func() {
				i := 100 + lateDials
				lateDials++
				afterReturn := shutReturned && nilReturned
				c := dialClient(i)
				if afterReturn {
					ep.Probe("dial-after-shutdown")
					if c != nil {
						ep.Fail("C18.no-accept", "a connection could be established after Shutdown returned")
					}
					return
				}
				if c != nil {
					conns = append(conns, c)
				}
			}})
		}
	}))

	S.Horizon = 2 * time.Minute
	S.MaxSteps = 8000
	done := func() bool {
		if !shutTask.Done || !runTask.Done || (secondTask != nil && !secondTask.Done) {
			return false
		}
		// every connection is finished: closed by either side, or idle with nothing owed
		for _, c := range conns {
			if c.sc.A.IsClosed() || c.sc.B.IsClosed() {
				continue
			}
			c.cl.Parse()
			hmu.Lock()
			h := len(handled[c.name])
			hmu.Unlock()
			if c.cl.AllSent() && c.sc.A.InflightTo() == 0 && h == len(c.cl.Resps) && (c.sc.A.ReaderParked() || c.sc.A.In.Total == 0) {
				continue // idle keep-alive connection the client keeps open (or never accepted)
			}
			return false
		}
		return true
	}
	res := S.Run(done)
	for _, t := range []*core.Task{runTask, shutTask, secondTask} {
		if t != nil && t.Panic != nil {
			if PanicInHertz(t.Stack) {
				ep.Fail("C18.panic:"+shortFunc(panicTop(t.Stack)), "panic in hertz: %v at %s", t.Panic, panicTop(t.Stack))
			} else {
				ep.Infra = fmt.Sprintf("harness panic: %v\n%s", t.Panic, t.Stack)
			}
			return
		}
	}
	switch res {
	case core.RunViolation:
		return
	case core.RunStepCap:
		ep.Infra = "step cap"
		return
	case core.RunDeadlock:
		switch {
		case !shutTask.Done:
			ep.Fail("C18.bound", "Shutdown never returned; %s", S.Describe())
		case secondTask != nil && !secondTask.Done:
			ep.Fail("C18.second", "the second Shutdown call never returned; %s", S.Describe())
		case !runTask.Done:
			ep.Fail("C18.run-returns", "Run did not return after Shutdown; %s", S.Describe())
		default:
			ep.Fail("C18.complete", "connections never finished after shutdown; %s", S.Describe())
		}
		return
	}

	// ---- oracles ----
	if spin && second && secondWasRunning && shutErr2 == nil {
		// the other call shut the engine down: Spin's own call failed at once, which Spin only logs
		shutErr = fmt.Errorf("not observable: Spin logs what Shutdown returns")
	}
	if !runReturned {
		ep.Fail("C18.run-returns", "Run did not return")
		return
	}
	_ = runErr
	// a call made while the engine is running and no shutdown has begun must succeed;
	// every other call (not running yet, or a shutdown already under way) must return an error
	if !beforeRun {
		if !firstWasRunning && shutErr == nil && !spin { // Spin logs what Shutdown returns, it does not report it
			ep.Fail("C18.second", "Shutdown of an engine that is not running returned nil")
			return
		}
		if second && !secondWasRunning && shutErr2 == nil {
			ep.Fail("C18.second", "a Shutdown call made while the engine was not running (not started yet or already shutting down) returned nil")
			return
		}
		if firstWasRunning && second && secondWasRunning && !spin {
			// both calls found the engine running: one of them does the shutdown, the other one is told that it did not
			if (shutErr == nil) == (shutErr2 == nil) {
				ep.Fail("C18.second", "two Shutdown calls that both found the engine running returned %v and %v: exactly one of them can have shut it down", shutErr, shutErr2)
				return
			}
		} else {
			if firstWasRunning && shutErr != nil && !spin {
				ep.Fail("C18.bound", "Shutdown of a running engine returned error %v", shutErr)
				return
			}
			if second && secondWasRunning && shutErr2 != nil && !firstWasRunning {
				ep.Fail("C18.bound", "Shutdown of a running engine returned error %v", shutErr2)
				return
			}
		}
	}
	if len(stillOpen) > 0 {
		ep.Fail("C18.complete", "Shutdown returned nil after %v (exit wait %v) although accepted connections %v were still open", shutDur, exitWait, stillOpen)
		return
	}
	if !ln.IsClosed() {
		ep.Fail("C18.no-accept", "the listener is still open after Shutdown returned")
		return
	}
	ep.Probe("dial-after-shutdown")
	if c := ln.Dial("late-final"); c != nil {
		ep.Fail("C18.no-accept", "a connection could be established after Shutdown returned")
		return
	}
	// duration bound on the fake clock
	bound := exitWait + 20*time.Millisecond
	if shutReturned && firstWasRunning && !beforeRun {
		if shutDur > bound {
			ep.Fail("C18.bound", "Shutdown took %v of simulated time, ExitWaitTimeout is %v (+2 polling ticks)", shutDur, exitWait)
			return
		}
		slowHook := false
		for _, d := range hookDur {
			if d > 0 {
				slowHook = true
			}
		}
		if activeAtShutdown == 0 && ln.Accepted == 0 && !slowHook && shutDur > 20*time.Millisecond {
			ep.Fail("C18.idle-fast", "Shutdown of an idle server took %v", shutDur)
			return
		}
		if shutDur >= exitWait {
			ep.Probe("wait-expired")
		} else {
			ep.Probe("returned-early")
		}
	}
	// a hook shorter than the exit wait has finished, uncancelled, by the time Shutdown returns
	if !beforeRun && shutErr == nil && firstWasRunning {
		for i, d := range hookDur {
			if d < exitWait && (hookDoneAtReturn[i] != 1 || hookCancelledAtReturn[i]) {
				ep.Fail("C18.hooks", "shutdown hook %d (takes %v, exit wait %v) had not finished when Shutdown returned after %v (finished %d times, context cancelled: %v)", i, d, exitWait, shutDur, hookDoneAtReturn[i], hookCancelledAtReturn[i])
				return
			}
		}
	}
	if !beforeRun {
		wantHooks := 0
		if shutErr == nil || (second && shutErr2 == nil) {
			wantHooks = 1 // hooks belong to the one shutdown that took place
		}
		for i, n := range hookCalls {
			if n != wantHooks {
				ep.Fail("C18.hooks", "shutdown hook %d was invoked %d times", i, n)
				return
			}
		}
	}
	// a graceful shutdown (nil before the wait expired) has answered every request that had been received completely
	if shutErr == nil && firstWasRunning && !beforeRun && shutDur < exitWait {
		for _, c := range conns {
			if c.owed >= 0 && !c.aborted && len(handled[c.name]) <= c.owed {
				ep.Fail("C18.complete", "connection %s: request %d had been delivered completely before Shutdown was called and everything before it had been answered, but it was never handled (Shutdown returned nil after %v)", c.name, c.owed, shutDur)
				return
			}
		}
	}
	// per connection: every handler that was entered produced one complete response
	for _, c := range conns {
		if c.slow && !c.sc.B.IsClosed() {
			c.sc.B.AcceptFromWriter(c.sc.B.InflightTo())
		}
		c.cl.Parse()
		h := handled[c.name]
		if c.aborted {
			continue // the client went away: nothing is owed to it
		}
		if c.cl.ParseErr != nil {
			ep.Fail("C18.complete", "connection %s: server output is not well-formed: %v", c.name, c.cl.ParseErr)
			return
		}
		if l := c.cl.Leftover(); len(l) > 0 {
			ep.Fail("C18.complete", "connection %s: truncated response (%d bytes of an incomplete message) although its handler ran to completion", c.name, len(l))
			return
		}
		if len(c.cl.Resps) != len(h) {
			ep.Fail("C18.complete", "connection %s: %d handlers were entered but %d complete responses arrived", c.name, len(h), len(c.cl.Resps))
			return
		}
		for i, hs := range h {
			if !hs.afterShutdown {
				continue
			}
			ep.Probe("close-hdr-checked")
			r := c.cl.Resps[i]
			if vs := r.GetAll("Connection"); len(vs) == 0 || vs[len(vs)-1] != "close" || len(vs) > 2 {
				ep.Fail("C18.close-hdr", "connection %s: response %d was produced after shutdown began but its Connection fields are %q", c.name, i, vs)
				return
			}
			if v, _ := r.Get("Connection"); false && v != "close" {
				ep.Fail("C18.close-hdr", "connection %s: response %d was produced after shutdown began but carries Connection %q", c.name, i, v)
				return
			}
			if i != len(h)-1 {
				ep.Fail("C18.close-hdr", "connection %s: %d more requests were served after a response that announced close", c.name, len(h)-1-i)
				return
			}
			if !c.sc.A.IsClosed() {
				ep.Fail("C18.close-hdr", "connection %s: server did not close after announcing close", c.name)
				return
			}
		}
	}
	ep.Nontrivial = activeAtShutdown > 0
	ep.Sample = map[string]interface{}{"connections": len(conns), "exit_wait": exitWait.String(), "idle_timeout": idleT.String(), "hooks": fmt.Sprint(hookDur), "shutdown_took": shutDur.String(), "second_shutdown": second, "accepted": ln.Accepted}
	_ = shutdownAt
}
