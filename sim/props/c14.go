package props

import (
	"bytes"
	"context"
	"errors"
	"fmt"
	"io"
	"net"
	"strings"
	"time"

	"github.com/cloudwego/hertz/pkg/app"
	"github.com/cloudwego/hertz/pkg/common/config"

	"verifsim/core"
	"verifsim/wire"
)

func init() {
	Registry["C14"] = RunC14
	Metas["C14"] = Meta{
		Rule:           "episode = streamed request A (fixed length below/at/above the 8 KiB prefetch or chunked with chunk sizes around buffer edges, trailers, Expect:100) + pipelined probe request B (sent with A or only after A's response) on one simulated connection; A's handler runs a generated consumption program (Read sizes from {1,2,100,4096,8192,8193,65536}, stop after k bytes: exhaustive k for bodies <= 64, sampled otherwise, incl. never-touch, stop mid-chunk, stop before the last chunk, read past EOF); seeded fragmentation incl. body bytes arriving while the handler reads. Non-trivial: handler stops before the end of a body > 0 or >= 2 fragments inside the body; distinct = abstract signature (framing, size bucket, stop class, read-size buckets, fragment buckets). Added later: GET requests with a body; a second connection streaming a request body at the same time, with tracer hooks as scheduling points inside the epilogue of Serve. Later still: the peer's FIN inside the body (an error, never a clean end-of-stream), bodies in thousands of one-byte chunks left unread.",
		Real:           []string{"ext.bodyStream.Read/skipRest/ReleaseBodyStream", "ext.ReadBodyWithStreaming", "req.ReadBodyStream/ContinueReadBodyStream", "utils.ParseChunkSize/SkipCRLF", "http1.Server.Serve", "standard.Conn"},
		Stub:           []string{"TCP (SimConn)", "peer (scripted actor)", "transporter accept loop (stub)", "clock (synctest)"},
		Assumptions:    []string{"standard transport only", "MaxRequestBodySize left at its default (above every generated body)"},
		RequiredProbes: []string{"fragments", "stop-early", "stop-mid-chunk", "never-touch", "read-past-eof", "chunked", "fixed-over-prefetch", "probe-after-response", "probe-pipelined", "exhaustive-stop", "hostile-body", "bad-trailer", "stall", "two-connections", "return-to-transport", "fin-in-body-error", "tiny-chunks"},
	}
}

func RunC14(ep *core.Episode) {
	tp := ep.Tape
	o := SrvOpts{Stream: true}
	// values 0..2 keep their meaning as a three-way pick (recorded tapes); 3..5: the same sizes with a
	// second connection streaming a request body at the same time
	// 6..8: the same sizes with WithSenseClientDisconnection (a second goroutine may sit in a read on the connection)
	bk := tp.Choose("bufsize", 9)
	o.BufSize = []int{4096, 8192, 16384}[bk%3]
	twoConn := bk >= 3 && bk < 6
	senseDisc := bk >= 6
	o.ReturnToTransport = tp.Chance("returnmode", 1, 6)
	if o.ReturnToTransport {
		ep.Probe("return-to-transport")
	}
	if senseDisc && !o.ReturnToTransport {
		o.SenseDisconnect = true
		ep.Probe("sense-disconnect")
	}
	stall := !o.ReturnToTransport && ep.Param("stall") != "off" && tp.Chance("stall", 1, 6)
	if stall {
		o.ReadTimeout = 50 * time.Millisecond
		o.IdleTimeout = 10 * time.Second
	}
	if twoConn {
		// a tracer whose hooks take time: scheduling points inside Serve's epilogue, between the
		// release of the body stream and the reset of the request context
		o.Configure = func(opts *config.Options) {
			opts.Tracers = []interface{}{&yieldTracer{ep: ep}}
		}
		ep.Probe("two-connections")
	}
	nw := core.NewNet(ep)
	srv := NewSrv(ep, nw, o)

	// request A
	gopt := GenOpt{Expect100: true, ChunkExt: true, BigBodies: true, Hostile: true} // GET may carry a body too
	gopt.ForceBody = true
	ga := GenRequest(tp, 0, false, gopt)
	badTrailer := false
	if ga.M.Chunked && !stall && tp.Chance("badtrailer", 1, 5) {
		// a trailer section the parser must reject; if it were taken for a request it would be "POST /smuggled-T"
		badTrailer = true
		ga.M.Trailers = []wire.Header{{K: "X", Raw: "POST /smuggled-T HTTP/1.1\r\n"}, {K: "Host", V: "evil"}, {K: "Content-Length", V: "0"}}
		if tp.Choose("btkind", 2) == 1 {
			ga.M.Trailers = []wire.Header{{K: "Host", V: "evil"}}
		}
		ga.Bytes, ga.Bounds = ga.M.Encode()
		ep.Probe("bad-trailer")
	}
	body := ga.M.Body
	L := len(body)
	gb := GenRequest(tp, 1, true, GenOpt{MaxBody: 300, NoBodyGET: true})

	// consumption program
	multipartFile := 0
	stop := L + 1 // > L: read until EOF (and beyond)
	mode := tp.Weighted("cmode", []int{3, 4, 1, 1, 1})
	switch mode {
	case 4: // (added weight) the body is a multipart form and the handler asks for the parsed form
		if stall {
			break // a peer that goes silent while the form is pre-parsed is answered before any handler runs
		}
		fileSz := tp.Pick("mfile", 10, 3000, 9000)
		epi := tp.Pick("mepi", 0, 2, 100, 9000)
		mp := "--xyz\r\nContent-Disposition: form-data; name=\"f\"\r\n\r\nfield-value\r\n--xyz\r\nContent-Disposition: form-data; name=\"file\"; filename=\"a.bin\"\r\nContent-Type: application/octet-stream\r\n\r\n" +
			string(core.PatternBytes(41, fileSz)) + "\r\n--xyz--\r\n" + string(core.PatternBytes(42, epi))
		var hs []wire.Header
		for _, h := range ga.M.Headers {
			if !strings.EqualFold(h.K, "Content-Type") && !strings.EqualFold(h.K, "Content-Length") {
				hs = append(hs, h)
			}
		}
		ga.M.Headers = append(hs, wire.Header{K: "Content-Type", V: "multipart/form-data; boundary=xyz"})
		ga.M.Body = []byte(mp)
		ga.M.NoFraming = false // the encoder writes the framing header for the new body
		if ga.M.Chunked {
			ga.M.ChunkSizes = splitChunks(tp, len(mp))
			ga.M.ChunkExts = nil
		}
		ga.Hostile = false
		ga.Bytes, ga.Bounds = ga.M.Encode()
		ga.HeadLen = strings.Index(string(ga.Bytes), "\r\n\r\n") + 4
		body = ga.M.Body
		L = len(body)
		multipartFile = fileSz
		stop = -2
		ep.Probe("multipart-form")
	case 0: // to EOF
	case 1: // stop after k bytes
		if L <= 64 {
			stop = tp.Choose("stopk", L+1)
			ep.Probe("exhaustive-stop")
		} else {
			switch tp.Choose("stopkind", 5) {
			case 4: // at a multiple of the hostile unit
				u := len(HostileUnit(0))
				stop = u * tp.Choose("stopunit", L/u+1)
			case 0:
				stop = tp.Choose("stopu", L+1)
			case 1:
				stop = L - 1
			case 2: // just before the last chunk / near the prefetch edge
				stop = tp.Pick("stope", 1, 8191, 8192, 8193, 4096)
				if stop > L {
					stop = L / 2
				}
			default:
				if len(ga.M.ChunkSizes) > 1 {
					stop = L - ga.M.ChunkSizes[len(ga.M.ChunkSizes)-1]
				} else {
					stop = L / 2
				}
			}
		}
	case 2: // never touch
		stop = -1
		ep.Probe("never-touch")
	case 3: // read to EOF then read again
		ep.Probe("read-past-eof")
	}
	if ga.M.Chunked {
		ep.Probe("chunked")
		if stop > 0 && stop < L {
			off := 0
			for _, c := range ga.M.ChunkSizes {
				if stop > off && stop < off+c {
					ep.Probe("stop-mid-chunk")
				}
				off += c
			}
		}
	} else if L > 8192 {
		ep.Probe("fixed-over-prefetch")
	}
	if stop >= 0 && stop < L {
		ep.Probe("stop-early")
	}
	if ga.Hostile {
		ep.Probe("hostile-body")
	}
	readSizes := []int{1, 2, 100, 4096, 8192, 8193, 65536}

	type inv struct {
		which string
		obs   *Obs
	}
	var invs []inv
	var got []byte
	handlerDone := false
	warmSeen := false
	stalledRead := false
	finCut := false
	echoB := &Echo{Stream: true}
	// request X on the second connection: streamed, read to the end by its handler
	var xBody, xGot []byte
	var xErr error
	xRan := false
	if twoConn {
		xBody = core.PatternBytes(99, tp.Pick("xlen", 100, 5000, 8192, 9000, 20000))
	}
	srv.Eng.NoRoute(func(c context.Context, ctx *app.RequestContext) {
		if o.SenseDisconnect {
			ep.S.Yield("handler.enter") // a goroutine hertz may have started just now reaches its park point first
		}
		uri := string(ctx.Request.Header.RequestURI())
		if twoConn && uri == "/xconn" {
			xRan = true
			if !ctx.Request.IsBodyStream() {
				ep.Fail("C14.prefix", "request X (%dB body) is not presented as a body stream", len(xBody))
				return
			}
			s := ctx.RequestBodyStream()
			if s == nil {
				ep.Fail("C14.prefix", "request X: IsBodyStream() is true but RequestBodyStream() is nil")
				return
			}
			buf := make([]byte, 1500)
			for k := 0; k < 100000; k++ {
				n, err := s.Read(buf)
				xGot = append(xGot, buf[:n]...)
				if err != nil {
					if err != io.EOF {
						xErr = err
					}
					break
				}
			}
			ctx.SetStatusCode(200)
			ctx.Response.SetBodyString(fmt.Sprintf("X read %d", len(xGot)))
			return
		}
		if uri == "/warm" && !warmSeen {
			warmSeen = true
			ctx.SetStatusCode(200)
			ctx.Response.SetBodyString("warm")
			return
		}
		if len(invs) == 0 && uri == ga.M.Target && string(ctx.Request.Header.Method()) == ga.M.Method {
			invs = append(invs, inv{which: "A"})
			defer func() { handlerDone = true }()
			if stop == -2 {
				// the parsed form is one more way of consuming the body; what it contains is not this property's
				// business, where the next request starts is
				form, err := ctx.MultipartForm()
				if err == nil && form != nil && len(form.File["file"]) == 1 && int(form.File["file"][0].Size) == multipartFile {
					ep.Probe("multipart-form-parsed")
				}
				ctx.SetStatusCode(200)
				ctx.Response.SetBodyString("A form")
				return
			}
			if stop < 0 {
				ctx.SetStatusCode(200)
				ctx.Response.SetBodyString("A untouched")
				return
			}
			if !ctx.Request.IsBodyStream() {
				ep.Fail("C14.prefix", "request A (%dB body) is not presented as a body stream", L)
				return
			}
			s := ctx.RequestBodyStream()
			if s == nil {
				ep.Fail("C14.prefix", "request A: IsBodyStream() is true but RequestBodyStream() is nil")
				return
			}
			eofs := 0
			zeros := 0
			for step := 0; step < 100000; step++ {
				want := stop - len(got)
				if stop > L {
					want = 1 << 30
				}
				if want <= 0 && eofs == 0 {
					break
				}
				sz := readSizes[tp.Choose("rsz", len(readSizes))]
				if sz > want {
					sz = want
				}
				ep.Sig("r:" + core.BucketSize(sz))
				buf := make([]byte, sz)
				n, err := s.Read(buf)
				ep.Logf("  A.Read(%d) -> %d %v (total %d/%d)", sz, n, err, len(got)+n, L)
				if n > 0 {
					if eofs > 0 {
						ep.Fail("C14.eof", "Read returned %d bytes after end-of-stream had been reported", n)
						return
					}
					if len(got)+n > L || !bytes.Equal(buf[:n], body[len(got):len(got)+n]) {
						ep.Fail("C14.prefix", "Read returned bytes that are not the next bytes of the body: at body offset %d got %dB (body is %dB)", len(got), n, L)
						return
					}
					got = append(got, buf[:n]...)
					zeros = 0
				}
				if err == io.EOF {
					if len(got) != L {
						ep.Fail("C14.eof", "end-of-stream reported after %d of %d body bytes", len(got), L)
						return
					}
					eofs++
					if mode != 3 || eofs >= 3 {
						break
					}
					continue
				}
				if err != nil {
					var ne net.Error
					if stall && ((errors.As(err, &ne) && ne.Timeout()) || strings.Contains(err.Error(), "timeout")) {
						// the peer stalled past the server's read timeout: the handler gives up and answers
						stalledRead = true
						ep.Fault("stall")
						break
					}
					if finCut {
						// the peer ended its stream inside the body: an error, never a clean end-of-stream
						ep.Probe("fin-in-body-error")
						break
					}
					if badTrailer && len(got) == L {
						// the body is complete; the malformed trailer section is reported as an error
						ep.Probe("bad-trailer-error")
						break
					}
					ep.Fail("C14.prefix", "Read failed after %d of %d body bytes: %v", len(got), L, err)
					return
				}
				if eofs > 0 {
					ep.Fail("C14.eof", "Read after end-of-stream returned (%d, nil)", n)
					return
				}
				if n == 0 {
					zeros++
					if zeros > 3 {
						ep.Fail("C14.prefix", "Read keeps returning (0, nil) at body offset %d", len(got))
						return
					}
				}
				if len(got) == L && stop <= L {
					break
				}
			}
			ctx.SetStatusCode(200)
			ctx.Response.SetBodyString(fmt.Sprintf("A read %d", len(got)))
			return
		}
		echoB.Seen = nil
		echoB.Handle(c, ctx)
		invs = append(invs, inv{which: "other", obs: echoB.Seen[0]})
	})
	srv.Start()
	conn := srv.Connect("c1")
	cl := NewClient(ep, conn)
	// 0: B is pipelined behind A; 1: B follows A's response; 2: the peer ends its stream inside A's body;
	// 3: pipelined, and A's body comes in thousands of one-byte chunks
	bw := tp.Choose("bwith", 4)
	finCut = bw == 2 && !stall && mode != 4 && L > 0
	if bw == 3 && ga.M.Chunked && mode != 4 && L > 4096 && L <= 30000 {
		ga.M.ChunkSizes = make([]int, L)
		for i := range ga.M.ChunkSizes {
			ga.M.ChunkSizes[i] = 1
		}
		ga.M.ChunkExts = nil
		ga.Bytes, ga.Bounds = ga.M.Encode()
		if tp.Choose("tinystop", 3) > 0 {
			stop = -1 + tp.Choose("tinystopk", 3) // nothing, or next to nothing, is consumed by the handler
		}
		ep.Probe("tiny-chunks")
	}
	pipelined := bw == 0 || bw == 3
	mode2 := 0
	if !pipelined {
		mode2 = 1
		ep.Probe("probe-after-response")
	} else {
		ep.Probe("probe-pipelined")
	}
	warm := 0
	if stall {
		// the read deadline is only armed from the second request on a connection: warm it up
		wm := &wire.Msg{Proto: "HTTP/1.1", Method: "GET", Target: "/warm", NoFraming: true, Headers: []wire.Header{{K: "Host", V: "h"}}}
		wb, _ := wm.Encode()
		cl.Methods = append(cl.Methods, "GET")
		cl.Sends = append(cl.Sends, Send{Data: wb, Label: "warm-up"})
		warm = 1
		// A: everything up to a point inside the body, then silence for longer than the read timeout, then the rest
		cut := ga.HeadLen + tp.Choose("stallcut", len(ga.Bytes)-ga.HeadLen)
		cl.Methods = append(cl.Methods, ga.M.Method, gb.M.Method)
		cl.Sends = append(cl.Sends, Send{Data: ga.Bytes[:cut], AfterResps: 1, Label: "A-part1"},
			Send{Data: ga.Bytes[cut:], Delay: 80 * time.Millisecond, Label: "A-rest-after-stall"})
		after := 1
		if mode2 == 1 {
			after = 2
		}
		cl.Sends = append(cl.Sends, Send{Data: gb.Bytes, AfterResps: after, Label: "B"})
		ga.Expect100 = false
	} else if finCut {
		// A up to a point inside its body, then the peer's FIN: the stream must fail, not end
		cut := ga.HeadLen + 1 + tp.Choose("fincut", len(ga.Bytes)-ga.HeadLen-1)
		cl.Methods = append(cl.Methods, ga.M.Method)
		cl.Sends = append(cl.Sends, Send{Data: ga.Bytes[:cut], Bounds: ga.Bounds, Label: "A-cut"}, Send{Kind: "fin"})
		ga.Expect100 = false
		ep.Fault("peer-fin-in-body")
	} else {
		ScriptRequests(tp, cl, []*GenReq{ga, gb}, mode2)
	}
	if mode == 4 {
		ep.Logf("A bytes: %q", wire.Trunc(string(ga.Bytes), 700))
	}
	ep.Logf("A: %s; consume mode=%d stop=%d; B: %s; pipelined=%v bufsize=%d", describeReqs([]*GenReq{ga})[0], mode, stop, describeReqs([]*GenReq{gb})[0], pipelined, o.BufSize)
	ep.Sig(fmt.Sprintf("A:%v:%s:%d:%v stop:%d:%v", ga.M.Chunked, core.BucketSize(L), len(ga.M.Trailers), ga.Expect100, mode, stop >= 0 && stop < L))

	var connX *SrvConn
	var clX *Client
	if twoConn {
		connX = srv.Connect("c2")
		clX = NewClient(ep, connX)
		xm := &wire.Msg{Proto: "HTTP/1.1", Method: "POST", Target: "/xconn", Headers: []wire.Header{{K: "Host", V: "h"}}, Body: xBody}
		if tp.Choose("xchunked", 2) == 1 {
			xm.Chunked = true
			xm.ChunkSizes = splitChunks(tp, len(xBody))
		}
		xb, xbounds := xm.Encode()
		connX.A.In.Boundaries = xbounds
		clX.Methods = []string{"POST"}
		clX.Sends = []Send{{Data: xb, Label: "X"}}
	}
	res := ep.S.Run(func() bool { return conn.Task.Done && (connX == nil || connX.Task.Done) })
	cl.Parse()
	if CheckPanic(ep, "C14", conn) || ep.Failed() {
		return
	}
	if twoConn {
		clX.Parse()
		if CheckPanic(ep, "C14", connX) {
			return
		}
		if res == core.RunDone || connX.Task.Done {
			// the other connection's stream is this connection's business only
			switch {
			case !xRan:
				ep.Fail("C14.prefix", "request X on the second connection never reached its handler (serve err=%v)", connX.Err)
			case xErr != nil:
				ep.Fail("C14.prefix", "request X on the second connection: Read failed after %d of %d body bytes: %v", len(xGot), len(xBody), xErr)
			case !bytes.Equal(xGot, xBody):
				ep.Fail("C14.prefix", "request X on the second connection read %d bytes of its %d-byte body (first difference at %d) while the first connection was being served", len(xGot), len(xBody), firstDiff(xGot, xBody))
			case len(clX.Resps) != 1 || clX.Resps[0].Status != 200:
				ep.Fail("C14.sync", "second connection: responses %s, parse error %v", respSummary(clX), clX.ParseErr)
			}
			if ep.Failed() {
				return
			}
		}
	}
	switch res {
	case core.RunDeadlock:
		if len(invs) >= 1 && !handlerDone {
			ep.Fail("C14.block", "A's handler is blocked in a stream read although all of A (%dB body) was delivered and nothing more is in flight: read %d bytes so far; %s", L, len(got), ep.S.Describe())
		} else {
			ep.Fail("C14.sync", "connection stuck after A's handler returned (%d invocations, %d responses, all sent=%v); %s", len(invs), len(cl.Resps), cl.AllSent(), ep.S.Describe())
		}
		return
	case core.RunStepCap:
		ep.Infra = "step cap"
		return
	}
	// after the handler: either the server closed, or the next invocation is exactly B
	if len(invs) == 0 && stall && len(cl.Resps) == 2 && cl.Resps[1].Status == 408 && conn.A.IsClosed() {
		// the stall hit while the server was still reading the part of the body it prefetches: 408 and close
		ep.Probe("stall-408")
		ep.Nontrivial = true
		return
	}
	if len(invs) == 0 && finCut {
		// the stream ended inside the part of the body the server reads before it calls the handler
		if !conn.A.IsClosed() {
			ep.Fail("C14.sync", "the peer ended its stream inside A's body, no handler ran, and the connection was not closed")
		}
		ep.Nontrivial = true
		return
	}
	if len(invs) == 0 {
		ep.Fail("C14.sync", "request A never reached its handler (serve err=%v, responses %s)", conn.Err, respSummary(cl))
		return
	}
	if len(invs) > 2 {
		ep.Fail("C14.no-smuggle", "%d handler invocations for 2 requests; third saw %s", len(invs), invs[2].obs)
		return
	}
	if len(invs) == 2 {
		if d := DiffObs(invs[1].obs, ExpectObs(gb, true)); d != "" {
			ep.Fail("C14.sync", "the request served after A is not the probe request B: %s", d)
			return
		}
	}
	if cl.ParseErr != nil {
		ep.Fail("C14.sync", "server output is not well-formed: %v", cl.ParseErr)
		return
	}
	if len(invs) == 1 {
		// B not served: acceptable only if the server closed the connection after A
		if !conn.A.IsClosed() {
			ep.Fail("C14.sync", "B was not served and the connection was not closed")
			return
		}
		if len(cl.Resps) > 1+warm {
			ep.Fail("C14.sync", "B's handler did not run but %d responses were written: %s", len(cl.Resps), respSummary(cl))
			return
		}
		ep.Probe("closed-after-A")
	} else {
		if len(cl.Resps) != 2+warm || cl.Resps[warm].Status != 200 || cl.Resps[warm+1].Status != 200 || len(cl.Leftover()) > 0 {
			ep.Fail("C14.sync", "responses after A and B: %s leftover=%dB", respSummary(cl), len(cl.Leftover()))
			return
		}
		want := "#0 " + gb.M.Method
		if gb.M.Method == "HEAD" {
			want = ""
		}
		if string(cl.Resps[warm+1].Body) != want {
			ep.Fail("C14.sync", "second response body %q, want %q", cl.Resps[warm+1].Body, want)
			return
		}
		ep.Probe("B-served")
	}
	if stop > L && len(got) != L && !ep.Failed() && !stalledRead && !finCut {
		ep.Fail("C14.prefix", "read to EOF returned %d of %d bytes", len(got), L)
		return
	}
	ep.Nontrivial = (stop >= 0 && stop < L) || ep.Probes["fragments"] >= 2
	ep.Sample = map[string]interface{}{"A": describeReqs([]*GenReq{ga})[0], "B": describeReqs([]*GenReq{gb})[0], "stop_after": stop, "consume_mode": mode, "bytes_read": len(got), "pipelined": pipelined, "fragments": ep.Probes["fragments"], "B_served": len(invs) == 2}
}

// yieldTracer: a tracer whose hooks are scheduling points.
type yieldTracer struct{ ep *core.Episode }

func (t *yieldTracer) Start(ctx context.Context, c *app.RequestContext) context.Context {
	t.ep.S.Yield("tracer.start")
	return ctx
}

func (t *yieldTracer) Finish(ctx context.Context, c *app.RequestContext) {
	t.ep.S.Yield("tracer.finish")
}
