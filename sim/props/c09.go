package props

import (
	"bytes"
	"context"
	"fmt"
	"io"
	"net"
	"reflect"
	"sort"
	"strings"
	"syscall"
	"time"

	"github.com/cloudwego/hertz/pkg/app"
	"github.com/cloudwego/hertz/pkg/app/middlewares/server/recovery"
	"github.com/cloudwego/hertz/pkg/common/config"
	"github.com/cloudwego/hertz/pkg/network"
	"github.com/cloudwego/hertz/pkg/protocol"
	"github.com/cloudwego/hertz/pkg/protocol/http1/resp"

	"verifsim/core"
	"verifsim/wire"
)

func init() {
	Registry["C09"] = RunC09
	Metas["C09"] = Meta{
		Rule: "episode = (dirtying history, probe): 1..3 requests with generated wire shapes (query, form, multipart, cookies, chunked+trailers, streamed body) whose handler runs a program of 1..12 exported mutators of RequestContext/Request/Response/RequestHeader/ResponseHeader/URI/Args/Trailer enumerated by reflection (plus Abort*, Error, Set, panic under the recovery middleware), ending normally / in a recovered panic / 400 / 413 / peer RST mid-body / peer FIN mid-header / write fault / Connection: close / through the pooled chunked body writer / with body streams whose Close fails; optionally a forced garbage collection with its finalizers (fault gc) before the probe; then a fixed probe request on the same keep-alive connection or on a new connection that gets the recycled context (reuse verified by pointer identity), whose handler dumps every exported getter (enumerated by reflection) and whose raw response bytes are captured; compared with the same probe on a brand-new engine. Sub-check: Acquire/Release round trips of Request/Response/URI/Cookie/Args. Non-trivial: the probe ran on a recycled object (identity verified) after >= 1 mutator; distinct = abstract signature (mutator names, outcome, probe placement). Later still: a ctx.Copy() and the Keys map kept by the dirtying handler and written to while the probe runs, nil-ness of Keys, what the setters do with lower-case names (normalisation flags), DisableNormalizing in the alphabet.",
		Real: []string{"RequestContext.ResetWithoutConn/Reset", "Request/Response/RequestHeader/ResponseHeader/URI/Args/Cookie/Trailer Reset paths", "http1.Server.Serve keep-alive loop + getRequestContext/putRequestContext", "route.Engine ctx pool", "protocol.Acquire*/Release* pools", "recovery middleware"},
		Stub: []string{"TCP (SimConn)", "peer (scripted actor)", "transporter accept loop (stub)", "clock (synctest)"},
		Assumptions: []string{
			"connection-scoped state the property lists as deliberately kept (conn, TLS flag, trace info object, binder/validator, client-IP and form-value functions) and handles to pooled internals are excluded from the dump by name",
			"one P makes sync.Pool hand the same object back unless the gc fault fired; episodes where reuse could not be verified count as trivial",
			"data races between a handler that kept a context and its next user are not covered (serialised execution)",
		},
		RequiredProbes: []string{"probe-same-conn", "probe-new-conn", "reuse-verified", "outcome-ok", "outcome-panic", "outcome-malformed", "outcome-toolarge", "outcome-rst-body", "outcome-close", "outcome-hijack-write-error", "outcome-write-error", "acquire-roundtrip", "mutators-run", "probe-unmatched", "outcome-chunked-writer", "outcome-stream-close-error", "probe-chunked-writer", "gc", "response-default-options", "copy-kept"},
	}
}

// ---- reflection alphabet ----

var c09Deny = map[string]bool{
	// internal / ends the exchange by design / connection scoped
	"Reset": true, "ResetWithoutConn": true, "ResetSkipHeader": true, "ResetSkipNormalize": true, "SetConn": true, "Hijack": true, "Exile": true, "SetHandlers": true,
	"SetEnableTrace": true, "SetTraceInfo": true, "SetBinder": true, "SetValidator": true, "SetClientIPFunc": true, "SetFormValueFunc": true, "SetHijackHandler": true,
	"HijackWriter": true, "Next": true, "SetIsTLS": true, "SetOptions": true, "SetMaxKeepBodySize": true, "ParseNetAddr": true, "SetFullPath": true,
	"SetFile": true, "SetFiles": true, "SetFileReader": true, "SwapBody": true, "SetBodyRaw": true, "ConstructBodyStream": true, "SetBodyStreamNoReset": true,
	"CopyTo": true, "CopyToSkipBody": true, "InitBufValue": true, "InitContentLengthWithValue": true, "SetRawHeaders": true, "SetProtocol": true, "SetNoHTTP11": true,
	"File": true, "FileAttachment": true, "FileFromFS": true, "SaveUploadedFile": true, "HTML": true, "Render": true, "Redirect": true,
	"SetHeaderLength": true, "Parse": true, "ParseBytes": true, "Update": true, "UpdateBytes": true, "VisitAll": true, "VisitAllCookie": true, "VisitAllCustomHeader": true,
	"SetByteRange": true, "SetNoDefaultContentType": true, "SetNoDefaultDate": true, "SetMultipartFormBoundary": true,
	"MustGet": true, "BindAndValidate": true, "Bind": true, "Validate": true, "BindQuery": true, "BindHeader": true, "BindPath": true, "BindForm": true, "BindJSON": true, "BindProtobuf": true, "BindByContentType": true,
	"SetStatusCode": false,
}

func isMutatorName(n string) bool {
	for _, p := range []string{"Set", "Add", "Append", "Del", "Write", "Abort", "Error", "Reset", "Remove", "Disable", "JSON", "PureJSON", "IndentedJSON", "String", "Data", "XML", "ProtoBuf", "NotFound", "NotModified", "Status", "Header", "Flush"} {
		if strings.HasPrefix(n, p) {
			return true
		}
	}
	return false
}

type mutArgGen func(tp *core.Tape, i int) reflect.Value

func argFor(t reflect.Type) mutArgGen {
	switch {
	case t.Kind() == reflect.String:
		return func(tp *core.Tape, i int) reflect.Value {
			return reflect.ValueOf([]string{"k1", "X-Dirty", "v alue", "", "Content-Type", "/dirty/path", "a=b", "close", "123"}[tp.Choose("argS", 9)]).Convert(t)
		}
	case t.Kind() == reflect.Slice && t.Elem().Kind() == reflect.Uint8:
		return func(tp *core.Tape, i int) reflect.Value {
			return reflect.ValueOf([]byte([]string{"dirty-bytes", "", "X-K", "q=1&r=2", "Trailer-Dirty"}[tp.Choose("argB", 5)])).Convert(t)
		}
	case t.Kind() == reflect.Int:
		return func(tp *core.Tape, i int) reflect.Value {
			return reflect.ValueOf([]int{0, 1, 201, 404, 500, -1, 4096}[tp.Choose("argI", 7)]).Convert(t)
		}
	case t.Kind() == reflect.Bool:
		return func(tp *core.Tape, i int) reflect.Value { return reflect.ValueOf(tp.Choose("argBool", 2) == 1) }
	case t == reflect.TypeOf(time.Time{}):
		return func(tp *core.Tape, i int) reflect.Value {
			return reflect.ValueOf(time.Unix(946684800+int64(i), 0).UTC())
		}
	case t == reflect.TypeOf((*io.Reader)(nil)).Elem():
		return func(tp *core.Tape, i int) reflect.Value {
			return reflect.ValueOf(io.Reader(strings.NewReader("dirty-stream-body"))).Convert(t)
		}
	case t == reflect.TypeOf((*error)(nil)).Elem():
		return func(tp *core.Tape, i int) reflect.Value {
			return reflect.ValueOf(fmt.Errorf("dirty error %d", i)).Convert(t)
		}
	case t.Kind() == reflect.Interface && t.NumMethod() == 0:
		return func(tp *core.Tape, i int) reflect.Value {
			return reflect.ValueOf(map[string]interface{}{"dirty": i})
		}
	}
	return nil
}

type mutator struct {
	target string // which object: ctx, req, resp, reqh, resph, uri, qargs, pargs, rtrailer
	name   string
	m      reflect.Method
	args   []mutArgGen
	field  int // >= 0: exported field of the target struct to overwrite instead of a method call
}

type getter struct {
	target string
	name   string
	m      reflect.Method
	arg    string // "", "s", "b"
}

var (
	c09Mutators []mutator
	c09Getters  []getter
	c09Targets  = []string{"ctx", "req", "resp", "reqh", "resph", "uri", "qargs", "pargs", "respt"}
)

func c09Objects(ctx *app.RequestContext) map[string]reflect.Value {
	return map[string]reflect.Value{
		"ctx":   reflect.ValueOf(ctx),
		"req":   reflect.ValueOf(&ctx.Request),
		"resp":  reflect.ValueOf(&ctx.Response),
		"reqh":  reflect.ValueOf(&ctx.Request.Header),
		"resph": reflect.ValueOf(&ctx.Response.Header),
		"uri":   reflect.ValueOf(ctx.Request.URI()),
		"qargs": reflect.ValueOf(ctx.QueryArgs()),
		"pargs": reflect.ValueOf(ctx.PostArgs()),
		"respt": reflect.ValueOf(ctx.Response.Header.Trailer()),
	}
}

var c09GetterDeny = map[string]bool{
	"GetConn": true, "GetReader": true, "GetWriter": true, "GetTraceInfo": true, "GetHijackHandler": true, "GetHijackWriter": true, "Finished": true, "Copy": true,
	"RemoteAddr": true, "LocalAddr": true, "ClientIP": true, "Hijack": true, "IsEnableTrace": true, "GetBufValue": true, "BodyWriter": true, "BodyBuffer": true,
	"Options": true, "GetTrailers": true, "Trailer": true, "URI": true, "PostArgs": true, "QueryArgs": true, "GetRequest": true, "GetResponse": true, "Handler": true, "HandlerName": true,
	"Handlers": true, "BodyStream": true, "RequestBodyStream": true, "MultipartForm": true, "MultipartFiles": true, "MultipartFields": true, "Cookies": true, "GetCookies": true,
	"BodyGunzip": true, "BodyE": true, "Body": false, "IsBodyStream": false, "Flush": true, "Abort": true, "GetRawData": false, "BasicAuth": false, "IsExiled": true,
	"GetHeaderLength": true, "MustGet": true, "Get": true, "Value": true, "Deadline": true, "Done": true, "Err": true, "NotFound": true, "String": false, "Error": true, "LastUseTime": true,
}

func buildC09Alphabet() {
	if c09Mutators != nil {
		return
	}
	ctx := app.NewContext(0)
	objs := c09Objects(ctx)
	for _, tg := range c09Targets {
		v := objs[tg]
		t := v.Type()
		// exported fields of simple kinds are part of the public mutable surface too
		if st := t.Elem(); st.Kind() == reflect.Struct {
			for i := 0; i < st.NumField(); i++ {
				f := st.Field(i)
				if !f.IsExported() {
					continue
				}
				switch f.Type.Kind() {
				case reflect.Bool, reflect.Int, reflect.String:
					c09Mutators = append(c09Mutators, mutator{target: tg, name: "field:" + f.Name, field: i})
				}
			}
		}
		for i := 0; i < t.NumMethod(); i++ {
			m := t.Method(i)
			ft := m.Type
			if isMutatorName(m.Name) && !c09Deny[m.Name] {
				var gens []mutArgGen
				ok := true
				for a := 1; a < ft.NumIn(); a++ {
					if ft.IsVariadic() {
						ok = false
						break
					}
					g := argFor(ft.In(a))
					if g == nil {
						ok = false
						break
					}
					gens = append(gens, g)
				}
				if ok {
					c09Mutators = append(c09Mutators, mutator{target: tg, name: m.Name, m: m, args: gens, field: -1})
				}
				continue
			}
			if isMutatorName(m.Name) || c09GetterDeny[m.Name] || ft.NumOut() == 0 {
				continue
			}
			switch ft.NumIn() {
			case 1:
				c09Getters = append(c09Getters, getter{target: tg, name: m.Name, m: m})
			case 2:
				switch {
				case ft.In(1).Kind() == reflect.String:
					c09Getters = append(c09Getters, getter{target: tg, name: m.Name, m: m, arg: "s"})
				case ft.In(1).Kind() == reflect.Slice && ft.In(1).Elem().Kind() == reflect.Uint8:
					c09Getters = append(c09Getters, getter{target: tg, name: m.Name, m: m, arg: "b"})
				}
			}
		}
	}
}

func fmtVal(v reflect.Value) string {
	if !v.IsValid() {
		return "<invalid>"
	}
	switch v.Kind() {
	case reflect.Slice:
		if v.Type().Elem().Kind() == reflect.Uint8 {
			return fmt.Sprintf("%q", v.Bytes())
		}
		var parts []string
		for i := 0; i < v.Len(); i++ {
			parts = append(parts, fmtVal(v.Index(i)))
		}
		return "[" + strings.Join(parts, ",") + "]"
	case reflect.String:
		return fmt.Sprintf("%q", v.String())
	case reflect.Ptr, reflect.Func, reflect.Chan, reflect.Map, reflect.UnsafePointer:
		if v.IsNil() {
			return "nil"
		}
		return "<" + v.Kind().String() + ">"
	case reflect.Interface:
		if v.IsNil() {
			return "nil"
		}
		if e, ok := v.Interface().(error); ok {
			return "err:" + e.Error()
		}
		return fmtVal(v.Elem())
	case reflect.Struct:
		if t, ok := v.Interface().(time.Time); ok {
			return t.UTC().Format(time.RFC3339Nano)
		}
		return "<struct " + v.Type().String() + ">"
	}
	return fmt.Sprint(v.Interface())
}

// dumpCtx calls every enumerated getter plus the visitors.
func dumpCtx(ctx *app.RequestContext) []string {
	var out []string
	objs := c09Objects(ctx)
	for _, g := range c09Getters {
		func() {
			defer func() {
				if r := recover(); r != nil {
					out = append(out, fmt.Sprintf("%s.%s -> PANIC %v", g.target, g.name, r))
				}
			}()
			in := []reflect.Value{objs[g.target]}
			switch g.arg {
			case "s":
				in = append(in, reflect.ValueOf("X-Probe").Convert(g.m.Type.In(1)))
			case "b":
				in = append(in, reflect.ValueOf([]byte("X-Probe")).Convert(g.m.Type.In(1)))
			}
			res := g.m.Func.Call(in)
			var parts []string
			for _, r := range res {
				parts = append(parts, fmtVal(r))
			}
			out = append(out, fmt.Sprintf("%s.%s -> %s", g.target, g.name, strings.Join(parts, ", ")))
		}()
	}
	ctx.Request.Header.VisitAll(func(k, v []byte) { out = append(out, fmt.Sprintf("reqh.VisitAll %q=%q", k, v)) })
	ctx.Request.Header.VisitAllCookie(func(k, v []byte) { out = append(out, fmt.Sprintf("reqh.VisitAllCookie %q=%q", k, v)) })
	ctx.Response.Header.VisitAll(func(k, v []byte) {
		if string(k) != "Date" {
			out = append(out, fmt.Sprintf("resph.VisitAll %q=%q", k, v))
		}
	})
	ctx.Response.Header.VisitAllCookie(func(k, v []byte) { out = append(out, fmt.Sprintf("resph.VisitAllCookie %q=%q", k, v)) })
	ctx.QueryArgs().VisitAll(func(k, v []byte) { out = append(out, fmt.Sprintf("qargs.VisitAll %q=%q", k, v)) })
	ctx.PostArgs().VisitAll(func(k, v []byte) { out = append(out, fmt.Sprintf("pargs.VisitAll %q=%q", k, v)) })
	ctx.Request.Header.Trailer().VisitAll(func(k, v []byte) { out = append(out, fmt.Sprintf("reqtrailer %q=%q", k, v)) })
	ctx.Response.Header.Trailer().VisitAll(func(k, v []byte) { out = append(out, fmt.Sprintf("resptrailer %q=%q", k, v)) })
	// what the setters do with a lower-case name depends on normalisation flags a reset has to restore
	for i, tr := range []*protocol.Trailer{ctx.Request.Header.Trailer(), ctx.Response.Header.Trailer()} {
		if err := tr.Set("x-probe-trailer", "tv"); err == nil {
			tr.VisitAll(func(k, v []byte) { out = append(out, fmt.Sprintf("trailer%d after Set %q=%q", i, k, v)) })
			tr.Del("x-probe-trailer")
			tr.Del("X-Probe-Trailer")
		}
	}
	ctx.Request.Header.Set("x-probe-lower", "v")
	ctx.Request.Header.VisitAll(func(k, v []byte) { out = append(out, fmt.Sprintf("reqh after Set %q=%q", k, v)) })
	ctx.Request.Header.Del("x-probe-lower")
	ctx.Request.Header.Del("X-Probe-Lower")
	ctx.Response.Header.Set("x-probe-lower", "v")
	ctx.Response.Header.VisitAll(func(k, v []byte) {
		if string(k) != "Date" {
			out = append(out, fmt.Sprintf("resph after Set %q=%q", k, v))
		}
	})
	ctx.Response.Header.Del("x-probe-lower")
	ctx.Response.Header.Del("X-Probe-Lower")
	out = append(out, fmt.Sprintf("Keys is nil: %v", ctx.Keys == nil))
	out = append(out, fmt.Sprintf("Params=%v Keys=%d Errors=%d IsAborted=%v FullPath=%q Index=%d", ctx.Params, len(ctx.Keys), len(ctx.Errors), ctx.IsAborted(), ctx.FullPath(), ctx.GetIndex()))
	var keys []string
	ctx.ForEachKey(func(k string, v interface{}) { keys = append(keys, k) })
	sort.Strings(keys)
	out = append(out, "keys="+strings.Join(keys, ","))
	return out
}

const c09ProbeMatched = "GET /probe/p1?x=1&y=2 HTTP/1.1\r\nHost: probe.test\r\nX-Probe: pv\r\nCookie: pc=1\r\n\r\n"

// an unmatched path: the not-found chain sees whatever routing state survived
const c09ProbeUnmatched = "GET /unmatched/zz?x=1 HTTP/1.1\r\nHost: probe.test\r\nX-Probe: pv\r\n\r\n"

func RunC09(ep *core.Episode) {
	buildC09Alphabet()
	tp := ep.Tape
	c09Probe := c09ProbeMatched
	if tp.Chance("unmatched-probe", 1, 3) {
		c09Probe = c09ProbeUnmatched
		ep.Probe("probe-unmatched")
	}
	ep.ProbeN("alphabet-mutators", 0)
	stream := tp.Chance("stream", 1, 4)
	noDate, noCT, noServer := false, false, false
	if tp.Chance("respopts", 1, 3) {
		noDate, noCT, noServer = tp.Choose("nodate", 2) == 1, tp.Choose("noct", 2) == 1, tp.Choose("noserver", 2) == 1
		ep.Probe("response-default-options")
	}
	probeStyle := tp.Weighted("probestyle", []int{3, 1, 1})
	if probeStyle == 1 {
		ep.Probe("probe-chunked-writer")
	}
	var beforeProbe func()
	mkEngine := func(name string, prog func(ctx *app.RequestContext), dump *[]string, ctxPtr **app.RequestContext) (*Srv, *core.Net) {
		nw := core.NewNet(ep)
		srv := NewSrv(ep, nw, SrvOpts{BufSize: 4096, MaxBody: 3000, Stream: stream, Configure: func(o *config.Options) {
			// options the server applies to the response object of every request
			o.NoDefaultDate, o.NoDefaultContentType, o.NoDefaultServerHeader = noDate, noCT, noServer
		}})
		srv.Eng.Use(recovery.Recovery(recovery.WithRecoveryHandler(func(c context.Context, ctx *app.RequestContext, err interface{}, stack []byte) {
			ctx.AbortWithStatus(500)
		})))
		srv.Eng.Any("/dirty/*any", func(c context.Context, ctx *app.RequestContext) {
			if prog != nil {
				prog(ctx)
			}
		})
		probeH := func(c context.Context, ctx *app.RequestContext) {
			*ctxPtr = ctx
			if name == "dirty" && beforeProbe != nil {
				beforeProbe()
			}
			*dump = dumpCtx(ctx)
			ctx.SetStatusCode(200)
			switch probeStyle {
			case 1: // the pooled chunked body writer
				ctx.Response.HijackWriter(resp.NewChunkedBodyWriter(&ctx.Response, ctx.GetWriter()))
				ctx.Write([]byte("probe-"))
				ctx.Flush()
				ctx.Write([]byte("ok"))
			case 2: // a body stream of unknown length
				ctx.Response.SetBodyStream(strings.NewReader("probe-ok"), -1)
			default:
				ctx.Response.SetBodyString("probe-ok")
			}
		}
		srv.Eng.GET("/probe/:pp", probeH)
		srv.Eng.NoRoute(probeH)
		srv.Start()
		return srv, nw
	}

	// ---- reference: the probe on a brand-new engine ----
	var refDump []string
	var refCtx *app.RequestContext
	refSrv, _ := mkEngine("ref", nil, &refDump, &refCtx)
	rc := refSrv.Connect("r1")
	rcl := NewClient(ep, rc)
	rcl.Methods = []string{"GET"}
	rcl.Sends = []Send{{Data: []byte(c09Probe), Label: "probe"}}
	if res := ep.S.Run(func() bool { return rc.Task.Done }); res != core.RunDone {
		// a brand-new engine still draws from the process-wide pools: what an earlier episode left there is part of the property
		if !CheckPanic(ep, "C09", rc) {
			rcl.Parse()
			ep.Fail("C09.wire", "the probe on a brand-new engine did not complete (%s): received %q, parse error %v", res, wire.Trunc(string(rc.Rx), 200), rcl.ParseErr)
		}
		return
	}
	rcl.Parse()
	refRaw := append([]byte(nil), rc.Rx...)
	if refDump == nil || len(rcl.Resps) != 1 {
		ep.Fail("C09.wire", "the probe on a brand-new engine was not answered with one response: received %q, parse error %v", wire.Trunc(string(rc.Rx), 200), rcl.ParseErr)
		return
	}

	// ---- dirtying history ----
	// 3..5: the same history lengths, and every dirtying handler keeps a ctx.Copy() that is written to while the probe runs
	ndv := tp.Choose("ndirty", 6)
	nd := 1 + ndv%3
	keepCopy := ndv >= 3
	var savedCopies []*app.RequestContext
	var savedKeys []map[string]interface{}
	outcomes := []string{"ok", "ok", "ok", "panic", "malformed", "toolarge", "rst-body", "fin-header", "close", "abort", "write-error", "hijack", "hijack-write-error", "chunked-writer", "stream-close-error"}
	var dirtyCtx *app.RequestContext
	var ranMutators []string
	progs := make([][]func(ctx *app.RequestContext), nd)
	ocs := make([]string, nd)
	ender := -1
	for d := 0; d < nd; d++ {
		ocs[d] = outcomes[tp.Choose("outcome", len(outcomes))]
		if stream && ocs[d] == "toolarge" {
			ocs[d] = "ok"
		}
		nm := 1 + tp.Choose("nmut", 12)
		for k := 0; k < nm; k++ {
			mu := c09Mutators[tp.Choose("mut", len(c09Mutators))]
			var args []reflect.Value
			for ai, g := range mu.args {
				args = append(args, g(tp, d*100+k*10+ai))
			}
			mu2 := mu
			if mu2.field >= 0 {
				progs[d] = append(progs[d], func(ctx *app.RequestContext) {
					f := c09Objects(ctx)[mu2.target].Elem().Field(mu2.field)
					switch f.Kind() {
					case reflect.Bool:
						f.SetBool(true)
					case reflect.Int:
						f.SetInt(7)
					case reflect.String:
						f.SetString("dirty")
					}
					ranMutators = append(ranMutators, mu2.target+"."+mu2.name)
				})
				continue
			}
			progs[d] = append(progs[d], func(ctx *app.RequestContext) {
				in := append([]reflect.Value{c09Objects(ctx)[mu2.target]}, args...)
				func() {
					defer func() {
						if r := recover(); r != nil {
							// a mutator that panics on odd arguments: not this property's business, but must not leak state either
							ranMutators = append(ranMutators, mu2.target+"."+mu2.name+"!panic")
						}
					}()
					mu2.m.Func.Call(in)
				}()
				ranMutators = append(ranMutators, mu2.target+"."+mu2.name)
			})
		}
		if ocs[d] != "ok" && ocs[d] != "panic" && ocs[d] != "abort" && ocs[d] != "chunked-writer" && ocs[d] != "stream-close-error" && ender < 0 {
			ender = d
		}
		ep.Probe("outcome-" + ocs[d])
	}
	if ender >= 0 {
		nd = ender + 1
		ocs = ocs[:nd]
		progs = progs[:nd]
	}
	cur := 0
	var dirtyConn *SrvConn
	var dDump []string
	var probeCtx *app.RequestContext
	srv, _ := mkEngine("dirty", func(ctx *app.RequestContext) {
		dirtyCtx = ctx
		d := cur
		cur++
		if d >= len(progs) {
			return
		}
		if stream && ctx.Request.IsBodyStream() {
			ctx.Request.Body()
		}
		for _, op := range progs[d] {
			op(ctx)
		}
		if keepCopy {
			func() {
				defer func() { recover() }() // a context some mutator left in a state Copy cannot handle: not this property's business
				savedCopies = append(savedCopies, ctx.Copy())
				ep.Probe("copy-kept")
			}()
		}
		ctx.Set("dirty-key", d)
		if keepCopy {
			savedKeys = append(savedKeys, ctx.Keys) // the map a handler passes on to work that outlives the request
		}
		ctx.Error(fmt.Errorf("dirty err"))
		switch ocs[d] {
		case "panic":
			panic("scripted panic")
		case "close":
			ctx.SetConnectionClose()
		case "abort":
			ctx.AbortWithStatus(418)
		case "chunked-writer":
			// the response goes out through the pooled chunked body writer (which only a finalizer returns to its pool)
			ctx.Response.ResetBody()
			ctx.SetStatusCode(200)
			ctx.Response.HijackWriter(resp.NewChunkedBodyWriter(&ctx.Response, ctx.GetWriter()))
			ctx.Write([]byte("dirty-chunk"))
			ctx.Flush()
		case "stream-close-error":
			// body streams whose Close fails, on both objects
			ctx.Request.SetBodyStream(&failCloser{Reader: strings.NewReader("dirty-request-stream")}, 20)
			ctx.Response.ResetBody()
			ctx.SetStatusCode(200)
			ctx.Response.SetBodyStream(&failCloser{Reader: strings.NewReader("dirty-stream")}, 12)
		case "write-error", "hijack-write-error", "hijack":
			if ocs[d] != "write-error" {
				ctx.Hijack(func(c network.Conn) {})
			}
			if ocs[d] != "hijack" {
				// the response cannot be written: the exchange dies between handler and hijack hand-over
				ctx.Response.ResetBody()
				ctx.Response.SetBodyString("x")
				dirtyConn.A.FailWrite = &net.OpError{Op: "write", Net: "tcp", Err: &osSyscallErr{"write", syscall.EPIPE}}
				ep.Fault("write-error")
			}
		}
	}, &dDump, &probeCtx)

	beforeProbe = func() {
		// the owner of a copy taken during an earlier request edits its copy while the recycled context serves the probe
		for _, c := range savedCopies {
			c09Scribble(c)
		}
		for _, m := range savedKeys {
			if m != nil {
				m["written-by-leftover-work"] = 1
			}
		}
	}
	conn := srv.Connect("d1")
	dirtyConn = conn
	cl := NewClient(ep, conn)
	cl.CloseWhenDone = false
	cl.NoInterim = true
	for d := 0; d < nd; d++ {
		m := &wire.Msg{Proto: "HTTP/1.1", Method: []string{"POST", "POST", "HEAD", "PUT", "GET"}[tp.Choose("dmethod", 5)], Target: fmt.Sprintf("/dirty/%d?dq=%d&z=zz", d, d), Headers: []wire.Header{{K: "Host", V: "dirty.test"}, {K: "Cookie", V: "dc=1; dd=2"}, {K: "X-Dirty-Req", V: "1"}}}
		switch tp.Choose("shape", 4) {
		case 0:
			m.Headers = append(m.Headers, wire.Header{K: "Content-Type", V: "application/x-www-form-urlencoded"})
			m.Body = []byte("f=1&g=2")
		case 1:
			m.Headers = append(m.Headers, wire.Header{K: "Content-Type", V: "multipart/form-data; boundary=xyz"})
			m.Body = []byte("--xyz\r\nContent-Disposition: form-data; name=\"f\"\r\n\r\nv\r\n--xyz--\r\n")
		case 2:
			m.Chunked = true
			m.Body = core.PatternBytes(byte(d), 50)
			m.Headers = append(m.Headers, wire.Header{K: "Trailer", V: "X-T"})
			m.Trailers = []wire.Header{{K: "X-T", V: "tv"}}
		case 3:
			m.Body = core.PatternBytes(byte(d), 1+tp.Choose("dblen", 2000))
		}
		if ocs[d] == "chunked-writer" || ocs[d] == "stream-close-error" {
			m.Method = "POST"
		}
		if ocs[d] == "toolarge" {
			m.Chunked = false
			m.Trailers = nil
			m.Body = core.PatternBytes(byte(d), 3500)
		}
		if ocs[d] == "malformed" {
			m.Headers = append(m.Headers, wire.Header{K: "Bad Header", Raw: "Bad Header : x\r\n"})
		}
		data, _ := m.Encode()
		head := bytes.Index(data, []byte("\r\n\r\n")) + 4
		cl.Methods = append(cl.Methods, m.Method)
		switch ocs[d] {
		case "rst-body":
			cut := head + tp.Choose("bcut", len(data)-head)
			cl.Sends = append(cl.Sends, Send{Data: data[:cut], WhenQuiet: true, Label: "partial"}, Send{Kind: "rst", Label: "rst"})
			ep.Fault("rst-mid-body")
		case "fin-header":
			cl.Sends = append(cl.Sends, Send{Data: data[:1+tp.Choose("hcut", head-2)], WhenQuiet: true, Label: "partial-header"}, Send{Kind: "fin", Label: "fin"})
			ep.Fault("fin-mid-header")
		default:
			cl.Sends = append(cl.Sends, Send{Data: data, WhenQuiet: true, Label: "dirty"})
		}
	}
	probeMark := -1
	sameConn := ender < 0 && tp.Choose("sameconn", 2) == 0
	if sameConn {
		ep.Probe("probe-same-conn")
		cl.Methods = append(cl.Methods, "GET")
		cl.Sends = append(cl.Sends, Send{Data: []byte(c09Probe), WhenQuiet: true, Mark: &probeMark, Label: "probe"})
	}
	cl.FinWhenQuiet = true
	// fault: a garbage collection (with its finalizers) between the dirtying history and the probe
	wantGC := tp.Chance("gc", 1, 3)
	gcDone := false
	if wantGC && sameConn {
		src := &core.FuncSource{F: func(add func(core.Event)) {
			if !gcDone && cur >= nd && conn.A.ReaderParked() {
				add(core.Event{Key: "gc", Weight: 20, Apply: func() {
					gcDone = true
					core.ForceGC()
					ep.Fault("gc")
				}})
			}
		}}
		ep.S.AddSource(src)
		defer ep.S.RemoveSource(src)
	}
	ep.Logf("dirty outcomes=%v sameConn=%v stream=%v probeStyle=%d", ocs, sameConn, stream, probeStyle)
	if res := ep.S.Run(func() bool { return conn.Task.Done }); res != core.RunDone {
		if res == core.RunViolation {
			return
		}
		if CheckPanic(ep, "C09", conn) {
			return
		}
		cl.Parse()
		ep.Fail("C09.wire", "dirtying connection did not finish (%s): %s; handlers run %d, responses %d, parse err %v, mutators %v, output tail %q", res, ep.S.Describe(), cur, len(cl.Resps), cl.ParseErr, tailStr(ranMutators, 8), wire.Trunc(string(cl.Leftover()), 200))
		return
	}
	if CheckPanic(ep, "C09", conn) {
		return
	}
	cl.Parse()
	var probeRaw []byte
	if sameConn && probeMark >= 0 && dDump != nil {
		probeRaw = conn.Rx[probeMark:]
	} else {
		ep.Probe("probe-new-conn")
		if wantGC && !gcDone {
			gcDone = true
			core.ForceGC()
			ep.Fault("gc")
		}
		c2 := srv.Connect("d2")
		cl2 := NewClient(ep, c2)
		cl2.Methods = []string{"GET"}
		cl2.Sends = []Send{{Data: []byte(c09Probe), Label: "probe"}}
		if res := ep.S.Run(func() bool { return c2.Task.Done }); res != core.RunDone {
			if CheckPanic(ep, "C09", c2) {
				return
			}
			ep.Fail("C09.wire", "probe connection did not finish: %s", res)
			return
		}
		if CheckPanic(ep, "C09", c2) {
			return
		}
		probeRaw = c2.Rx
	}
	if dDump == nil {
		ep.Fail("C09.ctx", "probe handler did not run after the dirtying history %v", ocs)
		return
	}
	reused := dirtyCtx != nil && probeCtx == dirtyCtx
	if reused {
		ep.Probe("reuse-verified")
	}
	ep.ProbeN("mutators-run", len(ranMutators))
	for _, m := range ranMutators {
		ep.Sig(m)
	}
	ep.Sig(fmt.Sprintf("%v|%v", ocs, sameConn))
	// ---- oracle: the recycled objects are indistinguishable from fresh ones ----
	if d := diffLines(dDump, refDump); d != "" {
		ep.Fail("C09.ctx", "after history %v (mutators %v) the probe on a recycled context differs from a fresh one: %s", ocs, tailStr(ranMutators, 14), d)
		return
	}
	if !bytes.Equal(probeRaw, refRaw) {
		ep.Fail("C09.wire", "after history %v (mutators %v) the probe's response bytes differ from a fresh server's: got %q want %q", ocs, tailStr(ranMutators, 14), wire.Trunc(string(probeRaw), 300), wire.Trunc(string(refRaw), 300))
		return
	}

	// ---- Acquire/Release round trips ----
	c09Acquire(ep, tp)
	ep.Nontrivial = reused && len(ranMutators) > 0
	ep.Sample = map[string]interface{}{"outcomes": ocs, "mutators": tailStr(ranMutators, 12), "probe_on_same_connection": sameConn, "context_reuse_verified": reused, "getters_compared": len(refDump)}
}

// c09Scribble overwrites, through the public setters, every header field, cookie and argument of a context copy
// with a value of the same length (so the bytes are rewritten in place if the copy shares memory with anything).
func c09Scribble(c *app.RequestContext) {
	defer func() { recover() }()
	z := func(v []byte) string { return strings.Repeat("Z", len(v)) }
	var kvs [][2]string
	c.Request.Header.VisitAll(func(k, v []byte) { kvs = append(kvs, [2]string{string(k), z(v)}) })
	for _, kv := range kvs {
		c.Request.Header.Set(kv[0], kv[1])
	}
	kvs = nil
	c.Request.Header.VisitAllCookie(func(k, v []byte) { kvs = append(kvs, [2]string{string(k), z(v)}) })
	for _, kv := range kvs {
		c.Request.Header.SetCookie(kv[0], kv[1])
	}
	kvs = nil
	c.Response.Header.VisitAll(func(k, v []byte) { kvs = append(kvs, [2]string{string(k), z(v)}) })
	for _, kv := range kvs {
		c.Response.Header.Set(kv[0], kv[1])
	}
	for _, a := range []*protocol.Args{c.QueryArgs(), c.PostArgs()} {
		kvs = nil
		a.VisitAll(func(k, v []byte) { kvs = append(kvs, [2]string{string(k), z(v)}) })
		for _, kv := range kvs {
			a.Set(kv[0], kv[1])
		}
	}
	c.Request.SetBody([]byte(z(c.Request.Body())))
	c.Response.SetBody([]byte(z(c.Response.Body())))
	c.Request.URI().SetPath("/" + z(c.Request.URI().Path()))
}

// failCloser is a body stream whose Close reports an error.
type failCloser struct{ io.Reader }

func (f *failCloser) Close() error { return fmt.Errorf("scripted close error") }

func tailStr(s []string, n int) []string {
	if len(s) > n {
		return s[len(s)-n:]
	}
	return s
}

func diffLines(got, want []string) string {
	n := len(got)
	if len(want) < n {
		n = len(want)
	}
	for i := 0; i < n; i++ {
		if got[i] != want[i] {
			return fmt.Sprintf("%q, fresh: %q", got[i], want[i])
		}
	}
	if len(got) != len(want) {
		if len(got) > len(want) {
			return fmt.Sprintf("extra line %q", got[len(want)])
		}
		return fmt.Sprintf("missing line %q", want[len(got)])
	}
	return ""
}

// c09Acquire: dirty an acquired object, release it, acquire again (identity
// checked) and compare its getters with a newly allocated object.
func c09Acquire(ep *core.Episode, tp *core.Tape) {
	dumpObj := func(v reflect.Value) []string {
		var out []string
		t := v.Type()
		for i := 0; i < t.NumMethod(); i++ {
			m := t.Method(i)
			if isMutatorName(m.Name) || c09GetterDeny[m.Name] || m.Type.NumOut() == 0 || m.Type.NumIn() != 1 {
				continue
			}
			func() {
				defer func() {
					if r := recover(); r != nil {
						out = append(out, fmt.Sprintf("%s -> PANIC %v", m.Name, r))
					}
				}()
				res := m.Func.Call([]reflect.Value{v})
				var parts []string
				for _, r := range res {
					parts = append(parts, fmtVal(r))
				}
				out = append(out, fmt.Sprintf("%s -> %s", m.Name, strings.Join(parts, ", ")))
			}()
		}
		return out
	}
	dirty := func(v reflect.Value) int {
		t := v.Type()
		n := 0
		k := 1 + tp.Choose("anm", 8)
		for j := 0; j < k; j++ {
			m := t.Method(tp.Choose("am", t.NumMethod()))
			if !isMutatorName(m.Name) || c09Deny[m.Name] || m.Type.IsVariadic() {
				continue
			}
			var args []reflect.Value
			ok := true
			for a := 1; a < m.Type.NumIn(); a++ {
				g := argFor(m.Type.In(a))
				if g == nil {
					ok = false
					break
				}
				args = append(args, g(tp, j))
			}
			if !ok {
				continue
			}
			func() {
				defer func() { recover() }()
				m.Func.Call(append([]reflect.Value{v}, args...))
			}()
			n++
		}
		return n
	}
	type kind struct {
		name    string
		acquire func() reflect.Value
		release func(reflect.Value)
		fresh   func() reflect.Value
	}
	kinds := []kind{
		{"Request", func() reflect.Value { return reflect.ValueOf(protocol.AcquireRequest()) }, func(v reflect.Value) { protocol.ReleaseRequest(v.Interface().(*protocol.Request)) }, func() reflect.Value { return reflect.ValueOf(&protocol.Request{}) }},
		{"Response", func() reflect.Value { return reflect.ValueOf(protocol.AcquireResponse()) }, func(v reflect.Value) { protocol.ReleaseResponse(v.Interface().(*protocol.Response)) }, func() reflect.Value { return reflect.ValueOf(&protocol.Response{}) }},
		{"URI", func() reflect.Value { return reflect.ValueOf(protocol.AcquireURI()) }, func(v reflect.Value) { protocol.ReleaseURI(v.Interface().(*protocol.URI)) }, func() reflect.Value { return reflect.ValueOf(&protocol.URI{}) }},
		{"Cookie", func() reflect.Value { return reflect.ValueOf(protocol.AcquireCookie()) }, func(v reflect.Value) { protocol.ReleaseCookie(v.Interface().(*protocol.Cookie)) }, func() reflect.Value { return reflect.ValueOf(&protocol.Cookie{}) }},
	}
	k := kinds[tp.Choose("akind", len(kinds))]
	o := k.acquire()
	n := dirty(o)
	k.release(o)
	o2 := k.acquire()
	if o2.Pointer() == o.Pointer() && n > 0 {
		ep.Probe("acquire-roundtrip")
	}
	got := dumpObj(o2)
	want := dumpObj(k.fresh())
	if d := diffLines(got, want); d != "" {
		ep.Fail("C09.acquire", "Acquire%s after Release of a dirtied object differs from a new one: %s", k.name, d)
	}
	k.release(o2)
}
