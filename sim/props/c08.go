package props

import (
	"bytes"
	"context"
	"fmt"
	"os"
	"path/filepath"
	"strconv"
	"strings"
	"sync"
	"time"

	"github.com/cloudwego/hertz/pkg/app"

	"verifsim/core"
	"verifsim/wire"
)

func init() {
	Registry["C08"] = RunC08
	Metas["C08"] = Meta{
		Rule: "episode = one app.FS handler (AcceptByteRange on/off, IndexNames, GenerateIndexPages, strip-prefix rewrite, CacheDuration 20ms..1s) plus a ctx.File route over a directory tree with files of length 0,1,2,10,4095,4096,4097,8191,8192,8193,24576 (small/big-file threshold) and bait files outside the root; 2..5 simulated connections, each 1..4 GET/HEAD requests with Range from the whole syntactic family (a-b, a-, -n, -0, empty, reversed, beyond EOF, overflowing, non-numeric, multi-range), If-Modified-Since, traversal attempts; the scheduler interleaves all connections on the shared file cache, stalls a reader of a streamed big-file response for longer than CacheDuration (the cleaner runs while the reader is open), lets the fake clock cross the cache deadline between requests, requests the same big file concurrently with different ranges, resets a client mid-body. Oracle: RFC 7233 single-range model over the known file bytes. Non-trivial: >= 2 connections with overlapping requests or a stall/reset fired; distinct = abstract signature (file class, range class, method, config, fault).",
		Real: []string{"app.FS / fsHandler.handleRequest, openFSFile, cache + cleaner goroutine, fsSmallFileReader, bigFileReader (reader reuse), ParseByteRange, ServeFile", "ResponseHeader.SetContentRange", "http1.Server.Serve, resp.Write/writeBodyStream", "standard.Conn", "operating-system files (real directory tree, fixed mtimes)"},
		Stub: []string{"TCP (SimConn)", "peers (scripted actors)", "transporter accept loop (stub)", "clock (synctest) - file mtimes are set explicitly"},
		Assumptions: []string{
			"disk is the real file system without fault injection (fs.go calls os.Open directly; no seam)",
			"Compress is left off (compressed responses would need a gzip oracle; the uncompressed cache and readers are the shared state under test)",
			"ctx.File serves through a process-global FS instance; to keep episodes independent the same handler is exercised through ctx.FileFromFS with an identically configured per-episode FS",
			"for syntactically invalid or multi-range Range headers any RFC-permitted answer is accepted (full 200, 206 of the first range, 416)",
		},
		RequiredProbes: []string{"range-closed", "range-open", "range-suffix", "range-unsatisfiable", "range-invalid", "range-multi", "empty-file", "big-file", "small-file", "head", "ims-304", "traversal", "index-file", "concurrent-same-file", "reader-stall", "client-rst", "cache-expired", "ctx-file-route", "dir-listing"},
	}
}

var (
	c08Once  sync.Once
	c08Root  string
	c08Files = map[string][]byte{}
	c08MTime = time.Date(1999, 12, 1, 0, 0, 0, 0, time.UTC)
)

// c08LoadFiles fills the content table without touching the disk.
func c08LoadFiles() {
	for _, n := range []int{0, 1, 2, 10, 4095, 4096, 4097, 8191, 8192, 8193, 24576} {
		c08Files[fmt.Sprintf("/f%d.bin", n)] = core.PatternBytes(byte(n%250), n)
	}
	c08Files["/dir/index.html"] = []byte("<html>dir index</html>")
	c08Files["/noindex/x.txt"] = []byte("xx")
}

const c08Bait = "SECRET-OUTSIDE-ROOT-c0ffee"

func c08Tree() string {
	c08Once.Do(func() {
		// one read-only tree shared by all worker processes, at a fixed path so that
		// messages that mention file names are identical in every process
		final := "/verif/.scratch/tree-c08-v1"
		if _, err := os.Stat(filepath.Join(final, "ready")); err == nil {
			c08LoadFiles()
			c08Root = filepath.Join(final, "root")
			return
		}
		os.MkdirAll("/verif/.scratch", 0o755)
		d, err := os.MkdirTemp("/verif/.scratch", "c08-build-")
		if err != nil {
			panic("harness: " + err.Error())
		}
		root := filepath.Join(d, "root")
		os.MkdirAll(filepath.Join(root, "dir"), 0o755)
		os.MkdirAll(filepath.Join(root, "noindex"), 0o755)
		for _, n := range []int{0, 1, 2, 10, 4095, 4096, 4097, 8191, 8192, 8193, 24576} {
			name := fmt.Sprintf("f%d.bin", n)
			b := core.PatternBytes(byte(n%250), n)
			c08Files["/"+name] = b
			os.WriteFile(filepath.Join(root, name), b, 0o644)
		}
		c08Files["/dir/index.html"] = []byte("<html>dir index</html>")
		os.WriteFile(filepath.Join(root, "dir", "index.html"), c08Files["/dir/index.html"], 0o644)
		c08Files["/noindex/x.txt"] = []byte("xx")
		os.WriteFile(filepath.Join(root, "noindex", "x.txt"), c08Files["/noindex/x.txt"], 0o644)
		os.WriteFile(filepath.Join(d, "secret.txt"), []byte(c08Bait), 0o644)
		os.WriteFile(filepath.Join(d, "rootsecret.txt"), []byte(c08Bait), 0o644)
		filepath.Walk(d, func(p string, info os.FileInfo, err error) error {
			if err == nil {
				os.Chtimes(p, c08MTime, c08MTime)
			}
			return nil
		})
		os.WriteFile(filepath.Join(d, "ready"), []byte("1"), 0o644)
		if err := os.Rename(d, final); err != nil {
			os.RemoveAll(d) // another process won the race
		}
		c08Root = filepath.Join(final, "root")
	})
	return c08Root
}

type c08req struct {
	method  string
	path    string // as sent
	file    string // key into c08Files ("" if unknown / not modelled)
	rng     string
	ims     string
	kind    string // range class
	travers bool
	dirlist bool
}

type rangeModel struct {
	// acceptable outcomes
	full   bool // 200 with the whole file
	part   [][2]int
	unsat  bool // 416
	strict bool // exactly one outcome is acceptable
}

func modelRange(rng string, n int, accept bool) rangeModel {
	if rng == "" || !accept {
		return rangeModel{full: true, strict: true}
	}
	any := rangeModel{full: true, unsat: true}
	if !strings.HasPrefix(rng, "bytes=") {
		return any
	}
	spec := rng[len("bytes="):]
	if strings.Contains(spec, ",") {
		m := any
		first := strings.TrimSpace(strings.SplitN(spec, ",", 2)[0])
		if fm := modelRange("bytes="+first, n, true); len(fm.part) > 0 {
			m.part = fm.part
		}
		return m
	}
	i := strings.IndexByte(spec, '-')
	if i < 0 {
		return any
	}
	a, b := spec[:i], spec[i+1:]
	num := func(s string) (int, bool) {
		if s == "" || len(s) > 15 {
			return 0, false
		}
		for _, c := range s {
			if c < '0' || c > '9' {
				return 0, false
			}
		}
		v, _ := strconv.Atoi(s)
		return v, true
	}
	switch {
	case a == "" && b == "":
		return any
	case a == "":
		k, ok := num(b)
		if !ok {
			return any
		}
		if k == 0 || n == 0 {
			return rangeModel{unsat: true, strict: true}
		}
		s := n - k
		if s < 0 {
			s = 0
		}
		return rangeModel{part: [][2]int{{s, n - 1}}, strict: true}
	default:
		s, ok := num(a)
		if !ok {
			return any
		}
		if b == "" {
			if s >= n {
				return rangeModel{unsat: true, strict: true}
			}
			return rangeModel{part: [][2]int{{s, n - 1}}, strict: true}
		}
		e, ok := num(b)
		if !ok {
			return any
		}
		if e < s {
			return any // syntactically invalid: ignore or reject
		}
		if s >= n {
			return rangeModel{unsat: true, strict: true}
		}
		if e >= n {
			e = n - 1
		}
		return rangeModel{part: [][2]int{{s, e}}, strict: true}
	}
}

var c08Ranges = []struct{ v, kind string }{
	{"", "none"}, {"", "none"}, {"bytes=0-0", "range-closed"}, {"bytes=1-3", "range-closed"}, {"bytes=0-99999", "range-closed"}, {"bytes=4095-4097", "range-closed"}, {"bytes=8191-8193", "range-closed"},
	{"bytes=0-", "range-open"}, {"bytes=5-", "range-open"}, {"bytes=8192-", "range-open"}, {"bytes=-1", "range-suffix"}, {"bytes=-5", "range-suffix"}, {"bytes=-99999", "range-suffix"}, {"bytes=-0", "range-unsatisfiable"},
	{"bytes=99999-", "range-unsatisfiable"}, {"bytes=99999-100000", "range-unsatisfiable"}, {"bytes=5-2", "range-invalid"}, {"bytes=", "range-invalid"}, {"bytes=-", "range-invalid"}, {"bytes=a-b", "range-invalid"},
	{"bytes=99999999999999999999-", "range-invalid"}, {"items=0-1", "range-invalid"}, {"bytes=0-0,2-3", "range-multi"}, {"bytes=1-", "range-open"},
}

func RunC08(ep *core.Episode) {
	tp := ep.Tape
	S := ep.S
	root := c08Tree()
	nw := core.NewNet(ep)
	srv := NewSrv(ep, nw, SrvOpts{BufSize: 4096, IdleTimeout: 60 * time.Second})
	accept := tp.Chance("acceptrange", 3, 4)
	cacheDur := tp.PickDur("cachedur", 20*time.Millisecond, 100*time.Millisecond, time.Second)
	genIdx := tp.Choose("genidx", 2) == 1
	fs := &app.FS{Root: root, AcceptByteRange: accept, IndexNames: []string{"index.html"}, GenerateIndexPages: genIdx, Compress: false, CacheDuration: cacheDur,
		PathRewrite: app.NewPathSlashesStripper(1)}
	h := fs.NewRequestHandler()
	ep.LeakedGoroutines++
	srv.Eng.GET("/static/*filepath", h)
	srv.Eng.HEAD("/static/*filepath", h)
	// ctx.File uses one process-global FS instance (its cache would carry state from one
	// episode into the next); the same handler code is reached through ctx.FileFromFS
	// with an identically configured per-episode instance
	fileFS := &app.FS{Root: "/", GenerateIndexPages: true, Compress: true, AcceptByteRange: true, CacheDuration: cacheDur}
	ep.LeakedGoroutines++
	fileH := func(c context.Context, ctx *app.RequestContext) {
		ctx.FileFromFS(filepath.Join(root, ctx.Param("name")), fileFS)
	}
	srv.Eng.GET("/file/:name", fileH)
	srv.Eng.HEAD("/file/:name", fileH)
	srv.Start()

	nconn := 2 + tp.Choose("nconn", 4)
	type cst struct {
		sc    *SrvConn
		cl    *Client
		reqs  []*c08req
		rst   bool
		stall bool
	}
	var conns []*cst
	sameBig := tp.Chance("samebig", 1, 3)
	for ci := 0; ci < nconn; ci++ {
		sc := srv.Connect(fmt.Sprintf("c%d", ci))
		cl := NewClient(ep, sc)
		c := &cst{sc: sc, cl: cl}
		nreq := 1 + tp.Choose("nreq", 4)
		names := []string{"/f0.bin", "/f1.bin", "/f2.bin", "/f10.bin", "/f4095.bin", "/f4096.bin", "/f4097.bin", "/f8191.bin", "/f8192.bin", "/f8193.bin", "/f24576.bin", "/dir/index.html", "/noindex/x.txt"}
		for k := 0; k < nreq; k++ {
			r := &c08req{method: "GET"}
			if tp.Chance("head", 1, 5) {
				r.method = "HEAD"
				ep.Probe("head")
			}
			r.file = names[tp.Choose("file", len(names))]
			if sameBig && tp.Choose("pickbig", 2) == 0 {
				r.file = "/f24576.bin"
				ep.Probe("concurrent-same-file")
			}
			r.path = "/static" + r.file
			rg := c08Ranges[tp.Choose("range", len(c08Ranges))]
			r.rng, r.kind = rg.v, rg.kind
			if r.kind != "none" {
				ep.Probe(r.kind)
			}
			switch tp.Weighted("variant", []int{12, 2, 2, 2, 2, 1}) {
			case 5: // a directory without an index file: generated listing or 403, never a crash or a leak
				r.path = []string{"/static/noindex/", "/static/noindex", "/static/", "/static"}[tp.Choose("dirpath", 4)]
				r.file = ""
				r.dirlist = true
				ep.Probe("dir-listing")
			case 1: // traversal attempts: must never leave the root
				r.path = []string{"/static/../secret.txt", "/static/%2e%2e/secret.txt", "/static/..%2fsecret.txt", "/static//../rootsecret.txt", "/static/dir/../../secret.txt", "/static/./../secret.txt", "/file/..%2fsecret.txt", "/static/%2e%2e%2f%2e%2e%2fsecret.txt"}[tp.Choose("trav", 8)]
				r.file = ""
				r.travers = true
				ep.Probe("traversal")
			case 2: // directory with an index file
				r.path = "/static/dir/"
				r.file = "/dir/index.html"
				ep.Probe("index-file")
			case 3: // If-Modified-Since at / after the modification time
				r.ims = c08MTime.Add(time.Duration(tp.Choose("imsd", 2)) * time.Hour).Format("Mon, 02 Jan 2006 15:04:05 GMT")
			case 4: // the ctx.File route
				if !strings.Contains(r.file[1:], "/") {
					r.path = "/file" + r.file
					ep.Probe("ctx-file-route")
				}
			}
			if n := len(c08Files[r.file]); r.file != "" {
				switch {
				case n == 0:
					ep.Probe("empty-file")
				case n > 8192:
					ep.Probe("big-file")
				default:
					ep.Probe("small-file")
				}
			}
			m := &wire.Msg{Proto: "HTTP/1.1", Method: r.method, Target: r.path, NoFraming: true, Headers: []wire.Header{{K: "Host", V: "h"}}}
			if r.rng != "" {
				m.Headers = append(m.Headers, wire.Header{K: "Range", V: r.rng})
			}
			if r.ims != "" {
				m.Headers = append(m.Headers, wire.Header{K: "If-Modified-Since", V: r.ims})
			}
			data, _ := m.Encode()
			delay := time.Duration(0)
			if tp.Chance("clockjump", 1, 5) {
				delay = cacheDur + time.Millisecond // the cache entry expires between requests
				ep.Probe("cache-expired")
			}
			c.reqs = append(c.reqs, r)
			cl.Methods = append(cl.Methods, r.method)
			cl.Sends = append(cl.Sends, Send{Data: data, AfterResps: k, Delay: delay, Label: "req"})
			ep.Sig(fmt.Sprintf("r:%s:%s:%s:%v", r.method, core.BucketSize(len(c08Files[r.file])), r.kind, r.travers))
		}
		// faults on this connection
		switch tp.Weighted("cfault", []int{6, 2, 2}) {
		case 1: // stalled reader: the peer accepts the response slowly, longer than the cache duration
			c.stall = true
			sc.A.Out.Cap = 2048
		case 2: // the client resets after part of a response
			c.rst = true
		}
		conns = append(conns, c)
	}
	// stalled readers accept bytes late; resets fire once part of a response arrived
	S.AddSource(core.SourceFunc(func(add func(core.Event)) {
		for _, c := range conns {
			c := c
			if c.stall {
				if k := c.sc.B.InflightTo(); k > 0 {
					if c.sc.B.IsClosed() {
						continue
					}
					add(core.Event{Key: "accept " + c.sc.Name, Weight: 6, Apply: func() {
						c.sc.B.AcceptFromWriter(1 + tp.Choose("acck", k))
						ep.Fault("reader-stall")
					}})
				}
			}
			if c.rst && !c.sc.B.IsClosed() {
				c.sc.Pump()
				if len(c.sc.Rx) > 0 && len(c.sc.Rx) < 3000 {
					add(core.Event{Key: "client-rst " + c.sc.Name, Weight: 3, Apply: func() {
						c.sc.B.Reset()
						ep.Fault("client-rst")
					}})
				}
			}
		}
	}))
	S.PassTimeWeight = 2
	S.Quanta = []time.Duration{time.Millisecond, cacheDur/2 + time.Millisecond, cacheDur + time.Millisecond}
	S.MaxSteps = 12000
	S.Horizon = 5 * time.Minute
	res := S.Run(func() bool {
		for _, c := range conns {
			if !c.sc.Task.Done {
				return false
			}
		}
		return true
	})
	for _, c := range conns {
		if CheckPanic(ep, "C08", c.sc) {
			return
		}
	}
	switch res {
	case core.RunViolation:
		return
	case core.RunStepCap:
		ep.Infra = "step cap"
		return
	case core.RunDeadlock:
		ep.Fail("C08.body", "a connection never finished: %s", S.Describe())
		return
	}
	// ---- oracle: every complete response equals the model ----
	for _, c := range conns {
		c.sc.B.AcceptFromWriter(c.sc.B.InflightTo())
		c.cl.Parse()
		if bytes.Contains(c.sc.Rx, []byte(c08Bait)) {
			ep.Fail("C08.root", "connection %s received bytes of a file outside the root", c.sc.Name)
			return
		}
		if c.cl.ParseErr != nil && !c.rst {
			ep.Fail("C08.headers", "connection %s: response %d is not well-formed: %v", c.sc.Name, len(c.cl.Resps), c.cl.ParseErr)
			return
		}
		for i, m := range c.cl.Resps {
			if i >= len(c.reqs) {
				break
			}
			if !c08CheckResp(ep, c.sc.Name, i, c.reqs[i], m, accept) {
				return
			}
		}
		if !c.rst && len(c.cl.Resps) != len(c.reqs) {
			ep.Fail("C08.body", "connection %s: %d responses for %d requests (leftover %dB, serve err %v)", c.sc.Name, len(c.cl.Resps), len(c.reqs), len(c.cl.Leftover()), c.sc.Err)
			return
		}
	}
	ep.Nontrivial = nconn >= 2
	var ds []string
	for _, c := range conns {
		for _, r := range c.reqs {
			ds = append(ds, fmt.Sprintf("%s %s %s range=%q ims=%v", c.sc.Name, r.method, r.path, r.rng, r.ims != ""))
		}
	}
	if len(ds) > 8 {
		ds = ds[:8]
	}
	ep.Sample = map[string]interface{}{"connections": nconn, "requests": ds, "accept_byte_range": accept, "cache_duration": cacheDur.String(), "faults": fmt.Sprint(ep.Faults)}
}

func c08CheckResp(ep *core.Episode, conn string, i int, r *c08req, m *wire.Msg, accept bool) bool {
	where := fmt.Sprintf("connection %s response %d (%s %s range=%q)", conn, i, r.method, r.path, r.rng)
	if r.travers {
		if m.Status == 200 || m.Status == 206 {
			ep.Fail("C08.root", "%s: traversal attempt answered with %d and %d body bytes", where, m.Status, len(m.Body))
			return false
		}
		return true
	}
	if r.dirlist {
		// generated content: only its shape is judged (a listing or a refusal, decoded as well-formed HTTP by the client)
		if m.Status >= 500 || m.Status < 200 {
			ep.Fail("C08.headers", "%s: directory request answered with %d", where, m.Status)
			return false
		}
		return true
	}
	file, ok := c08Files[r.file]
	if !ok {
		return true
	}
	n := len(file)
	if r.ims != "" {
		if m.Status != 304 {
			ep.Fail("C08.headers", "%s: If-Modified-Since at/after the modification time answered with %d", where, m.Status)
			return false
		}
		ep.Probe("ims-304")
		return true
	}
	useRange := accept && strings.HasPrefix(r.path, "/static")
	if strings.HasPrefix(r.path, "/file") {
		useRange = true // ServeFile's handler accepts byte ranges
	}
	md := modelRange(r.rng, n, useRange)
	body := m.Body
	head := r.method == "HEAD"
	clh, _ := m.Get("Content-Length")
	switch m.Status {
	case 200:
		if !md.full {
			ep.Fail("C08.headers", "%s: answered 200 with the whole file, the range selects %v (unsatisfiable=%v)", where, md.part, md.unsat)
			return false
		}
		if clh != strconv.Itoa(n) {
			ep.Fail("C08.headers", "%s: Content-Length %q for a %d-byte file", where, clh, n)
			return false
		}
		if !head && !bytes.Equal(body, file) {
			ep.Fail("C08.body", "%s: body %dB differs from the %d-byte file (first difference at %d)", where, len(body), n, firstDiff(body, file))
			return false
		}
	case 206:
		if len(md.part) == 0 {
			ep.Fail("C08.headers", "%s: answered 206, acceptable: full=%v unsatisfiable=%v", where, md.full, md.unsat)
			return false
		}
		s, e := md.part[0][0], md.part[0][1]
		wantCR := fmt.Sprintf("bytes %d-%d/%d", s, e, n)
		if cr, _ := m.Get("Content-Range"); cr != wantCR {
			ep.Fail("C08.headers", "%s: Content-Range %q, want %q", where, cr, wantCR)
			return false
		}
		if clh != strconv.Itoa(e-s+1) {
			ep.Fail("C08.headers", "%s: Content-Length %q for range %d-%d", where, clh, s, e)
			return false
		}
		if !head && !bytes.Equal(body, file[s:e+1]) {
			ep.Fail("C08.body", "%s: body %dB is not bytes %d-%d of the file (first difference at %d)", where, len(body), s, e, firstDiff(body, file[s:e+1]))
			return false
		}
	case 416:
		if !md.unsat {
			ep.Fail("C08.headers", "%s: answered 416, but the range is satisfiable: %v", where, md.part)
			return false
		}
	default:
		ep.Fail("C08.headers", "%s: unexpected status %d", where, m.Status)
		return false
	}
	if head && len(body) != 0 {
		ep.Fail("C08.head", "%s: HEAD response carries %d body bytes", where, len(body))
		return false
	}
	return true
}
