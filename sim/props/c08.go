package props

import (
	"bytes"
	"compress/gzip"
	"context"
	"fmt"
	"io"
	"os"
	"path/filepath"
	"strconv"
	"strings"
	"sync"
	"time"

	"github.com/cloudwego/hertz/pkg/app"
	"github.com/cloudwego/hertz/pkg/common/verifhook"

	"verifsim/core"
	"verifsim/wire"
)

func init() {
	Registry["C08"] = RunC08
	Metas["C08"] = Meta{
		Rule: "episode = one app.FS handler (AcceptByteRange on/off, IndexNames, GenerateIndexPages, strip-prefix rewrite, CacheDuration 20ms..1s; in a third of the episodes a private writable tree with Compress on/off) plus a ctx.File route over a directory tree with files of length 0,1,2,10,4095,4096,4097,8191,8192,8193,24576 (small/big-file threshold), a directory whose generated listing exceeds the small-file threshold, and bait files outside the root; 2..5 simulated connections, each 1..4 GET/HEAD requests with Range from the whole syntactic family (a-b, a-, -n, -0, empty, reversed, beyond EOF, overflowing, non-numeric, multi-range), If-Modified-Since, Accept-Encoding: gzip, traversal attempts, directory requests; the scheduler interleaves all connections on the shared file caches, stalls a reader of a streamed big-file response for longer than CacheDuration (the cleaner runs while the reader is open), lets the fake clock cross the cache deadline between requests, requests the same big file concurrently with different ranges, resets a client mid-body, and (disk fault) replaces files under the running server with new content and a newer or older modification time; after the last replacement plus 2 x CacheDuration every connection sends one more request that must see exactly the final file. Oracle: RFC 7233 single-range model over the known file bytes (after gunzip when the response is gzip-coded, which is only allowed when asked for, with Compress, on a whole-file answer), Last-Modified of the final version, generated listings name every entry. Non-trivial: >= 2 connections with overlapping requests or a stall/reset fired; distinct = abstract signature (file class, range class, method, config, fault). Later still: files removed while the compressed sibling hertz wrote stays behind, HEAD against GET (same coding and length with Compress), and - one episode in four - a scheduling point in front of every statement of fs.go (inserted yields, lock statements as try-lock loops; DESIGN 8).",
		Real: []string{"app.FS / fsHandler.handleRequest, openFSFile, compressAndOpenFSFile (.hertz.gz siblings), createDirIndex, both caches + cleaner goroutine, fsSmallFileReader, bigFileReader (reader reuse), ParseByteRange, ServeFile", "ResponseHeader.SetContentRange", "http1.Server.Serve, resp.Write/writeBodyStream", "standard.Conn", "operating-system files (real directory trees, modification times set explicitly)"},
		Stub: []string{"TCP (SimConn)", "peers (scripted actors)", "transporter accept loop (stub)", "clock (synctest) - file mtimes are set explicitly", "stackless worker pool (hook H4: the gzip writer's function runs on the calling goroutine)"},
		Assumptions: []string{
			"disk is the real file system; the only disk fault is whole-file replacement (write + rename) between or during requests; fs.go calls os.Open directly, so I/O errors cannot be injected",
			"a file replaced while requests for it are in progress is outside the property: after a replacement only the request sent once everything settled is judged strictly (earlier ones: no crash, nothing from outside the root)",
			"ctx.File serves through a process-global FS instance; to keep episodes independent the same handler is exercised through ctx.FileFromFS with an identically configured per-episode FS",
			"for syntactically invalid or multi-range Range headers any RFC-permitted answer is accepted (full 200, 206 of the first range, 416)",
		},
		RequiredProbes: []string{"range-closed", "range-open", "range-suffix", "range-unsatisfiable", "range-invalid", "range-multi", "range-overflow", "special-file-name", "empty-file", "big-file", "small-file", "head", "ims-304", "traversal", "index-file", "concurrent-same-file", "reader-stall", "client-rst", "cache-expired", "ctx-file-route", "dir-listing", "dir-listing-big", "compress-on", "gzip-response", "final-request", "hot-file", "file-modified-older", "file-modified-newer", "file-removed", "head-vs-get-coding"},
	}
}

var (
	c08Once  sync.Once
	c08Root  string
	c08Files = map[string][]byte{}
	c08MTime = time.Date(1999, 12, 1, 0, 0, 0, 0, time.UTC)
	// names in each directory without an index file (for the generated listings)
	c08DirEntries = map[string][]string{}
)

const c08ManyCount = 120

// c08LoadFiles fills the content table without touching the disk.
func c08LoadFiles() {
	for _, n := range []int{0, 1, 2, 10, 4095, 4096, 4097, 8191, 8192, 8193, 24576} {
		c08Files[fmt.Sprintf("/f%d.bin", n)] = core.PatternBytes(byte(n%250), n)
		c08DirEntries[""] = append(c08DirEntries[""], fmt.Sprintf("f%d.bin", n))
	}
	c08Files["/dir/index.html"] = []byte("<html>dir index</html>")
	c08Files["/noindex/x.txt"] = []byte("xx")
	// names that differ only in how a '+' or an escape in the request path is decoded
	c08Files["/a+b.txt"] = []byte("file named a-plus-b")
	c08Files["/a b.txt"] = []byte("file named a-space-b")
	c08Files["/p%41q.txt"] = []byte("file named p-percent-4-1-q")
	c08DirEntries[""] = append(c08DirEntries[""], "dir", "noindex", "many", "a+b.txt", "a b.txt")
	c08DirEntries["/noindex"] = []string{"x.txt"}
	for i := 0; i < c08ManyCount; i++ {
		// a listing of this directory is larger than the small-file threshold
		name := fmt.Sprintf("entry-with-a-rather-long-file-name-%03d.txt", i)
		c08Files["/many/"+name] = []byte{byte('a' + i%26)}
		c08DirEntries["/many"] = append(c08DirEntries["/many"], name)
	}
}

const c08Bait = "SECRET-OUTSIDE-ROOT-c0ffee"

// c08WriteTree writes the whole tree under d (d/root is the served root, bait files sit next to it).
func c08WriteTree(d string) {
	root := filepath.Join(d, "root")
	for _, sub := range []string{"dir", "noindex", "many"} {
		os.MkdirAll(filepath.Join(root, sub), 0o755)
	}
	for name, b := range c08Files {
		os.WriteFile(filepath.Join(root, name), b, 0o644)
	}
	os.WriteFile(filepath.Join(d, "secret.txt"), []byte(c08Bait), 0o644)
	os.WriteFile(filepath.Join(d, "rootsecret.txt"), []byte(c08Bait), 0o644)
	filepath.Walk(d, func(p string, info os.FileInfo, err error) error {
		if err == nil {
			os.Chtimes(p, c08MTime, c08MTime)
		}
		return nil
	})
}

func c08Tree() string {
	c08Once.Do(func() {
		c08LoadFiles()
		// one read-only tree shared by all worker processes, at a fixed path so that
		// messages that mention file names are identical in every process
		final := "/verif/.scratch/tree-c08-v3"
		c08Root = filepath.Join(final, "root")
		if _, err := os.Stat(filepath.Join(final, "ready")); err == nil {
			return
		}
		os.MkdirAll("/verif/.scratch", 0o755)
		d, err := os.MkdirTemp("/verif/.scratch", "c08-build-")
		if err != nil {
			panic("harness: " + err.Error())
		}
		c08WriteTree(d)
		os.WriteFile(filepath.Join(d, "ready"), []byte("1"), 0o644)
		if err := os.Rename(d, final); err != nil {
			os.RemoveAll(d) // another process won the race
		}
	})
	return c08Root
}

// ---- the private, writable tree of this worker process (episodes with Compress or file modifications) ----

var (
	c08PrivDir   string
	c08PrivDirty = map[string]bool{}
)

// c08PrivateTree returns the root of a tree only this process uses, restored to the pristine state:
// compressed siblings hertz created are removed, files an earlier episode modified are rewritten.
func c08PrivateTree() string {
	c08Tree()
	if c08PrivDir == "" {
		base := "/verif/.scratch"
		if o := os.Getenv("VSIM_OUT"); o != "" {
			base = filepath.Dir(o) // the driver's scratch directory: removed when the check ends
		}
		c08PrivDir = filepath.Join(base, fmt.Sprintf("c08w-%d", os.Getpid()))
		os.RemoveAll(c08PrivDir)
		c08WriteTree(c08PrivDir)
		return filepath.Join(c08PrivDir, "root")
	}
	root := filepath.Join(c08PrivDir, "root")
	filepath.Walk(root, func(p string, info os.FileInfo, err error) error {
		if err == nil && !info.IsDir() && (strings.HasSuffix(p, ".hertz.gz") || strings.HasSuffix(p, ".tmp") || strings.HasSuffix(p, ".new")) {
			os.Remove(p)
		}
		return nil
	})
	for name := range c08PrivDirty {
		p := filepath.Join(root, name)
		os.WriteFile(p, c08Files[name], 0o644)
		os.Chtimes(p, c08MTime, c08MTime)
		delete(c08PrivDirty, name)
	}
	return root
}

// c08ver is one version of a file's content.
type c08ver struct {
	data    []byte
	mtime   time.Time
	deleted bool // the file was removed (compressed siblings hertz made of it stay behind)
}

type c08req struct {
	method  string
	path    string // as sent
	file    string // key into c08Files ("" if unknown / not modelled)
	rng     string
	ims     string
	kind    string // range class
	travers bool
	dirlist bool
	dir     string // directory key into c08DirEntries for dirlist requests
	gzip    bool   // the request carries Accept-Encoding: gzip
	final   bool   // sent after every modification settled: exactly the current version must be served
}

type rangeModel struct {
	// acceptable outcomes
	full   bool // 200 with the whole file
	part   [][2]int
	unsat  bool // 416
	strict bool // exactly one outcome is acceptable
}

func modelRange(rng string, n int, accept bool) rangeModel {
	if rng == "" || !accept {
		return rangeModel{full: true, strict: true}
	}
	any := rangeModel{full: true, unsat: true}
	if !strings.HasPrefix(rng, "bytes=") {
		return any
	}
	spec := rng[len("bytes="):]
	if strings.Contains(spec, ",") {
		m := any
		first := strings.TrimSpace(strings.SplitN(spec, ",", 2)[0])
		if fm := modelRange("bytes="+first, n, true); len(fm.part) > 0 {
			m.part = fm.part
		}
		return m
	}
	i := strings.IndexByte(spec, '-')
	if i < 0 {
		return any
	}
	a, b := spec[:i], spec[i+1:]
	num := func(s string) (int, bool) {
		if s == "" || len(s) > 15 {
			return 0, false
		}
		for _, c := range s {
			if c < '0' || c > '9' {
				return 0, false
			}
		}
		v, _ := strconv.Atoi(s)
		return v, true
	}
	switch {
	case a == "" && b == "":
		return any
	case a == "":
		k, ok := num(b)
		if !ok {
			return any
		}
		if k == 0 || n == 0 {
			return rangeModel{unsat: true, strict: true}
		}
		s := n - k
		if s < 0 {
			s = 0
		}
		return rangeModel{part: [][2]int{{s, n - 1}}, strict: true}
	default:
		s, ok := num(a)
		if !ok {
			return any
		}
		if b == "" {
			if s >= n {
				return rangeModel{unsat: true, strict: true}
			}
			return rangeModel{part: [][2]int{{s, n - 1}}, strict: true}
		}
		e, ok := num(b)
		if !ok {
			return any
		}
		if e < s {
			return any // syntactically invalid: ignore or reject
		}
		if s >= n {
			return rangeModel{unsat: true, strict: true}
		}
		if e >= n {
			e = n - 1
		}
		return rangeModel{part: [][2]int{{s, e}}, strict: true}
	}
}

var c08Ranges = []struct{ v, kind string }{
	{"", "none"}, {"", "none"}, {"bytes=0-0", "range-closed"}, {"bytes=1-3", "range-closed"}, {"bytes=0-99999", "range-closed"}, {"bytes=4095-4097", "range-closed"}, {"bytes=8191-8193", "range-closed"},
	{"bytes=0-", "range-open"}, {"bytes=5-", "range-open"}, {"bytes=8192-", "range-open"}, {"bytes=-1", "range-suffix"}, {"bytes=-5", "range-suffix"}, {"bytes=-99999", "range-suffix"}, {"bytes=-0", "range-unsatisfiable"},
	{"bytes=99999-", "range-unsatisfiable"}, {"bytes=99999-100000", "range-unsatisfiable"}, {"bytes=5-2", "range-invalid"}, {"bytes=", "range-invalid"}, {"bytes=-", "range-invalid"}, {"bytes=a-b", "range-invalid"},
	{"bytes=99999999999999999999-", "range-invalid"}, {"items=0-1", "range-invalid"}, {"bytes=0-0,2-3", "range-multi"}, {"bytes=1-", "range-open"},
	// numbers just above 2^64 and 2^63: a parser that wraps turns them into small offsets
	{"bytes=18446744073709551617-", "range-overflow"}, {"bytes=0-18446744073709551618", "range-overflow"}, {"bytes=-18446744073709551617", "range-overflow"},
	{"bytes=9223372036854775809-", "range-overflow"}, {"bytes=18446744073709551616-18446744073709551619", "range-overflow"}, {"bytes=36893488147419103233-", "range-overflow"},
}

func RunC08(ep *core.Episode) {
	tp := ep.Tape
	S := ep.S
	root := c08Tree()
	// mutable episodes: Compress writes .hertz.gz siblings and files change under the running server,
	// so they get this process's private tree; everything else shares the read-only one
	mutable := ep.Param("mutable") != "off" && tp.Chance("mutable", 1, 3)
	compress := false
	if mutable {
		root = c08PrivateTree()
		compress = tp.Chance("compress", 2, 3)
		ep.Probe("mutable-tree")
		if compress {
			ep.Probe("compress-on")
		}
	}
	// version history per file (immutable episodes: the one version)
	versions := map[string][]c08ver{}
	for name, b := range c08Files {
		versions[name] = []c08ver{{data: b, mtime: c08MTime}}
	}
	nw := core.NewNet(ep)
	srv := NewSrv(ep, nw, SrvOpts{BufSize: 4096, IdleTimeout: 60 * time.Second})
	accept := tp.Chance("acceptrange", 3, 4)
	cacheDur := tp.PickDur("cachedur", 20*time.Millisecond, 100*time.Millisecond, time.Second)
	// 4..7: the same, and the statement-level yields the driver inserts into fs.go are honoured in this episode
	gk := tp.Choose("genidx", 8)
	genIdx := gk%2 == 1
	astOn := gk >= 4 && os.Getenv("VSIM_AST_OFF") == ""
	// an episode honours a window of 150 (every other one: 1000) consecutive inserted yields:
	// statement-level interleaving is 20-50 times as expensive as the rest
	astFrom, astTo := 0, 0
	if astOn {
		// (early statements more often: first requests open, compress and cache the files)
		astFrom = []int{0, 0, 40, 80, 120, 160, 200, 250, 300, 400, 500, 650, 800, 1000, 1300, 1700}[tp.Choose("astfrom", 16)]
		astTo = astFrom + 150
		if gk >= 6 {
			astTo = astFrom + 1000
		}
	}
	astSeen := 0
	fs := &app.FS{Root: root, AcceptByteRange: accept, IndexNames: []string{"index.html"}, GenerateIndexPages: genIdx, Compress: compress, CacheDuration: cacheDur,
		PathRewrite: app.NewPathSlashesStripper(1)}
	h := fs.NewRequestHandler()
	ep.LeakedGoroutines++
	srv.Eng.GET("/static/*filepath", h)
	srv.Eng.HEAD("/static/*filepath", h)
	// ctx.File uses one process-global FS instance (its cache would carry state from one
	// episode into the next); the same handler code is reached through ctx.FileFromFS
	// with an identically configured per-episode instance
	fileFS := &app.FS{Root: "/", GenerateIndexPages: true, Compress: true, AcceptByteRange: true, CacheDuration: cacheDur}
	ep.LeakedGoroutines++
	fileH := func(c context.Context, ctx *app.RequestContext) {
		ctx.FileFromFS(filepath.Join(root, ctx.Param("name")), fileFS)
	}
	srv.Eng.GET("/file/:name", fileH)
	srv.Eng.HEAD("/file/:name", fileH)
	srv.Start()
	if astOn {
		// every statement of the file handler is a scheduling point for the tasks of this episode
		// (goroutines left over from earlier episodes - cache cleaners - are not tasks and run on)
		ep.Probe("inserted-yields")
		verifhook.OnYield = func(site string, obj interface{}) {
			// a goroutine that is no task yet (the cache cleaner) becomes one when it has to wait for a lock a parked task holds
			if !strings.HasPrefix(site, "ast") {
				return
			}
			if site == "ast-lock" {
				ep.ProbeN("inserted-yield-taken", 1)
				S.Yield(site)
				return
			}
			// (counting is cheap, asking the scheduler who is calling is not)
			astSeen++
			if astSeen > astFrom && astSeen <= astTo && S.Known() {
				ep.ProbeN("inserted-yield-taken", 1)
				S.Yield(site)
			}
		}
		ep.OnDrained(func() { verifhook.OnYield = nil })
	}

	nconn := 2 + tp.Choose("nconn", 4)
	type cst struct {
		sc     *SrvConn
		cl     *Client
		reqs   []*c08req
		rst    bool
		stall  bool
		phase1 int // requests of the first phase
	}
	var conns []*cst
	sameBig := tp.Chance("samebig", 1, 3)
	names := []string{"/f0.bin", "/f1.bin", "/f2.bin", "/f10.bin", "/f4095.bin", "/f4096.bin", "/f4097.bin", "/f8191.bin", "/f8192.bin", "/f8193.bin", "/f24576.bin", "/dir/index.html", "/noindex/x.txt", "/many/entry-with-a-rather-long-file-name-007.txt"}
	encode := func(r *c08req) []byte {
		m := &wire.Msg{Proto: "HTTP/1.1", Method: r.method, Target: r.path, NoFraming: true, Headers: []wire.Header{{K: "Host", V: "h"}}}
		if r.rng != "" {
			m.Headers = append(m.Headers, wire.Header{K: "Range", V: r.rng})
		}
		if r.ims != "" {
			m.Headers = append(m.Headers, wire.Header{K: "If-Modified-Since", V: r.ims})
		}
		if r.gzip {
			m.Headers = append(m.Headers, wire.Header{K: "Accept-Encoding", V: "gzip"})
		}
		data, _ := m.Encode()
		return data
	}
	for ci := 0; ci < nconn; ci++ {
		sc := srv.Connect(fmt.Sprintf("c%d", ci))
		cl := NewClient(ep, sc)
		c := &cst{sc: sc, cl: cl}
		nreq := 1 + tp.Choose("nreq", 4)
		for k := 0; k < nreq; k++ {
			r := &c08req{method: "GET"}
			if tp.Chance("head", 1, 5) {
				r.method = "HEAD"
				ep.Probe("head")
			}
			r.file = names[tp.Choose("file", len(names))]
			if astOn && tp.Choose("astsame", 2) == 0 {
				r.file = "/f4097.bin" // the connections meet on one small file
			}
			if sameBig && tp.Choose("pickbig", 2) == 0 {
				r.file = "/f24576.bin"
				ep.Probe("concurrent-same-file")
			}
			r.path = "/static" + r.file
			if tp.Chance("specialname", 1, 8) {
				// the path as sent -> the file it names (a '+' in a path is a plus; %2B is a plus; %20 is a space; %25 is a percent sign)
				sp := [][2]string{{"/a+b.txt", "/a+b.txt"}, {"/a%2Bb.txt", "/a+b.txt"}, {"/a%20b.txt", "/a b.txt"}, {"/p%2541q.txt", "/p%41q.txt"}, {"/a%2bb.txt", "/a+b.txt"}}[tp.Choose("special", 5)]
				r.path, r.file = "/static"+sp[0], sp[1]
				ep.Probe("special-file-name")
			}
			rg := c08Ranges[tp.Choose("range", len(c08Ranges))]
			r.rng, r.kind = rg.v, rg.kind
			if r.kind != "none" {
				ep.Probe(r.kind)
			}
			if mutable && tp.Chance("acceptgzip", 1, 2) {
				r.gzip = true
				ep.Probe("accept-gzip")
			}
			switch tp.Weighted("variant", []int{12, 2, 2, 2, 2, 2}) {
			case 5: // a directory without an index file: the generated listing or 403, never a crash or a leak
				d := tp.Choose("dirpath", 6)
				r.path = []string{"/static/noindex/", "/static/noindex", "/static/", "/static", "/static/many/", "/static/many"}[d]
				r.dir = []string{"/noindex", "/noindex", "", "", "/many", "/many"}[d]
				r.file = ""
				r.dirlist = true
				ep.Probe("dir-listing")
				if r.dir == "/many" {
					ep.Probe("dir-listing-big")
				}
			case 1: // traversal attempts: must never leave the root
				r.path = []string{"/static/../secret.txt", "/static/%2e%2e/secret.txt", "/static/..%2fsecret.txt", "/static//../rootsecret.txt", "/static/dir/../../secret.txt", "/static/./../secret.txt", "/file/..%2fsecret.txt", "/static/%2e%2e%2f%2e%2e%2fsecret.txt"}[tp.Choose("trav", 8)]
				r.file = ""
				r.travers = true
				ep.Probe("traversal")
			case 2: // directory with an index file
				r.path = "/static/dir/"
				r.file = "/dir/index.html"
				ep.Probe("index-file")
			case 3: // If-Modified-Since at / after the modification time
				if !mutable {
					r.ims = c08MTime.Add(time.Duration(tp.Choose("imsd", 2)) * time.Hour).Format("Mon, 02 Jan 2006 15:04:05 GMT")
				}
			case 4: // the ctx.File route
				if !strings.Contains(r.file[1:], "/") && !strings.ContainsAny(r.file, " +%") {
					r.path = "/file" + r.file
					ep.Probe("ctx-file-route")
				}
			}
			if n := len(c08Files[r.file]); r.file != "" {
				switch {
				case n == 0:
					ep.Probe("empty-file")
				case n > 8192:
					ep.Probe("big-file")
				default:
					ep.Probe("small-file")
				}
			}
			delay := time.Duration(0)
			if tp.Chance("clockjump", 1, 5) {
				delay = cacheDur + time.Millisecond // the cache entry expires between requests
				ep.Probe("cache-expired")
			}
			c.reqs = append(c.reqs, r)
			cl.Methods = append(cl.Methods, r.method)
			cl.Sends = append(cl.Sends, Send{Data: encode(r), AfterResps: k, Delay: delay, Label: "req"})
			ep.Sig(fmt.Sprintf("r:%s:%s:%s:%v:%v", r.method, core.BucketSize(len(c08Files[r.file])), r.kind, r.travers, r.gzip))
		}
		c.phase1 = nreq
		// faults on this connection
		switch tp.Weighted("cfault", []int{6, 2, 2}) {
		case 1: // stalled reader: the peer accepts the response slowly, longer than the cache duration
			c.stall = true
			sc.A.Out.Cap = 2048
		case 2: // the client resets after part of a response
			c.rst = true
		}
		if mutable && !c.rst {
			// second phase (filled in below once the first is over): one request that must see the final state
			cl.Methods = append(cl.Methods, "GET")
		}
		conns = append(conns, c)
	}
	// ---- files change under the running server (mutable episodes) ----
	modTargets := []string{"/f10.bin", "/f4097.bin", "/f8193.bin", "/f24576.bin", "/dir/index.html"}
	maxMods := 0
	if mutable {
		maxMods = tp.Choose("nmods", 4)
	}
	mods := 0
	var removedFiles []string
	phase2 := false
	phase1Over := func() bool {
		for _, c := range conns {
			c.cl.Parse() // this source may be asked before the client actor has looked at what arrived
			if !c.sc.Task.Done && !c.sc.B.IsClosed() && len(c.cl.Resps) < c.phase1 {
				return false
			}
		}
		return true
	}
	// stalled readers accept bytes late; resets fire once part of a response arrived
	S.AddSource(core.SourceFunc(func(add func(core.Event)) {
		for _, c := range conns {
			c := c
			if c.stall {
				if k := c.sc.B.InflightTo(); k > 0 {
					if c.sc.B.IsClosed() {
						continue
					}
					add(core.Event{Key: "accept " + c.sc.Name, Weight: 6, Apply: func() {
						c.sc.B.AcceptFromWriter(1 + tp.Choose("acck", k))
						ep.Fault("reader-stall")
					}})
				}
			}
			if c.rst && !c.sc.B.IsClosed() {
				c.sc.Pump()
				if len(c.sc.Rx) > 0 && len(c.sc.Rx) < 3000 {
					add(core.Event{Key: "client-rst " + c.sc.Name, Weight: 3, Apply: func() {
						c.sc.B.Reset()
						ep.Fault("client-rst")
					}})
				}
			}
		}
		if !mutable || phase2 {
			return
		}
		if !phase1Over() {
			if mods < maxMods {
				add(core.Event{Key: "fs-modify", Weight: 3, Apply: func() {
					mods++
					name := modTargets[tp.Choose("modfile", len(modTargets))]
					cur := versions[name]
					n := len(cur[0].data)
					pth := filepath.Join(root, name)
					ms := tp.Choose("modsize", 5)
					if ms == 4 {
						// the file is removed; whatever compressed sibling hertz wrote next to it stays behind
						if cur[len(cur)-1].deleted {
							return
						}
						os.Remove(pth)
						c08PrivDirty[name] = true
						versions[name] = append(cur, c08ver{deleted: true})
						removedFiles = append(removedFiles, name)
						ep.Fault("file-removed")
						ep.Logf("fs: %s removed", name)
						return
					}
					switch ms {
					case 1:
						n++
					case 2:
						n = 10 + mods
					case 3:
						n = 9000 + mods
					}
					// a modification time never used for this file before; older than the previous one in half of the cases
					hrs := time.Duration(len(cur)*2+1) * time.Hour
					kind := "file-modified-newer"
					if tp.Choose("modolder", 2) == 1 {
						hrs = -hrs
						kind = "file-modified-older"
					}
					v := c08ver{data: core.PatternBytes(byte(37*len(cur)+n%200), n), mtime: c08MTime.Add(hrs)}
					os.WriteFile(pth+".new", v.data, 0o644)
					os.Chtimes(pth+".new", v.mtime, v.mtime)
					os.Rename(pth+".new", pth)
					c08PrivDirty[name] = true
					versions[name] = append(cur, v)
					ep.Fault(kind)
					ep.Logf("fs: %s replaced by version %d (%dB, mtime %+v h)", name, len(cur), n, hrs.Hours())
				}})
			}
			return
		}
		// first phase over: no more modifications. After the longest time a cache entry can survive
		// (CacheDuration plus one cleaner period), every connection asks once more.
		phase2 = true
		settle := 2*cacheDur + 5*time.Millisecond
		for _, c := range conns {
			if c.rst || c.sc.Task.Done || c.sc.B.IsClosed() {
				continue
			}
			r := &c08req{method: "GET", final: true}
			r.file = modTargets[tp.Choose("finalfile", len(modTargets))]
			if len(removedFiles) > 0 && tp.Choose("finalremoved", 2) == 0 {
				r.file = removedFiles[tp.Choose("finalremovedk", len(removedFiles))] // a file that has been removed meanwhile
			}
			r.path = "/static" + r.file
			r.gzip = tp.Choose("finalgzip", 2) == 1
			if tp.Choose("finalrange", 3) == 1 {
				r.rng, r.kind = "bytes=1-", "range-open"
			}
			if tp.Choose("hot", 2) == 1 {
				// the file stays hot: it is requested twice per CacheDuration all through the settling time; only the
				// last request, three cache periods after the last change, is the verdict
				warm := *r
				warm.final = false
				for j := 0; j < 6; j++ {
					w := warm
					c.reqs = append(c.reqs, &w)
					c.cl.Methods = append(c.cl.Methods, "GET")
					c.cl.Sends = append(c.cl.Sends, Send{Data: encode(&w), AfterResps: c.phase1 + j, Delay: cacheDur / 2, Label: "warm"})
				}
				c.reqs = append(c.reqs, r)
				c.cl.Sends = append(c.cl.Sends, Send{Data: encode(r), AfterResps: c.phase1 + 6, Delay: cacheDur / 2, Label: "final"})
				ep.Probe("final-request")
				ep.Probe("hot-file")
				continue
			}
			c.reqs = append(c.reqs, r)
			c.cl.Sends = append(c.cl.Sends, Send{Data: encode(r), AfterResps: c.phase1, Delay: settle, Label: "final"})
			ep.Probe("final-request")
		}
		S.Poke() // the client actors may already have been asked in this round
	}))
	S.PassTimeWeight = 2
	S.Quanta = []time.Duration{time.Millisecond, cacheDur/2 + time.Millisecond, cacheDur + time.Millisecond}
	S.MaxSteps = 12000
	if astOn {
		S.MaxSteps = 150000
	}
	S.Horizon = 5 * time.Minute
	res := S.Run(func() bool {
		for _, c := range conns {
			if !c.sc.Task.Done {
				return false
			}
		}
		return true
	})
	for _, c := range conns {
		if CheckPanic(ep, "C08", c.sc) {
			return
		}
	}
	switch res {
	case core.RunViolation:
		return
	case core.RunStepCap:
		ep.Infra = "step cap"
		return
	case core.RunDeadlock:
		ep.Fail("C08.body", "a connection never finished: %s", S.Describe())
		return
	}
	// ---- oracle: every complete response equals the model ----
	cfg := c08cfg{accept: accept, genIdx: genIdx, compress: compress}
	// A file replaced while requests for it are in progress is outside the property (hertz pairs the
	// cached length with whatever a re-opened reader finds, and ends the connection on the mismatch):
	// once a modification happened, first-phase responses are only checked for what can never be
	// right (bytes from outside the root, a crash); the request sent after everything settled is judged strictly.
	lenient := mods > 0
	if lenient {
		ep.Probe("modified-under-load")
	}
	for _, c := range conns {
		c.sc.B.AcceptFromWriter(c.sc.B.InflightTo())
		c.cl.Parse()
		if bytes.Contains(c.sc.Rx, []byte(c08Bait)) {
			ep.Fail("C08.root", "connection %s received bytes of a file outside the root", c.sc.Name)
			return
		}
		if c.cl.ParseErr != nil && !c.rst && !lenient {
			ep.Fail("C08.headers", "connection %s: response %d is not well-formed: %v", c.sc.Name, len(c.cl.Resps), c.cl.ParseErr)
			return
		}
		for i, m := range c.cl.Resps {
			if i >= len(c.reqs) {
				break
			}
			r := c.reqs[i]
			if lenient && !r.final && !r.travers {
				continue
			}
			cands := versions[r.file]
			if r.final && len(cands) > 0 {
				cands = cands[len(cands)-1:]
			}
			if !c08CheckResp(ep, c.sc.Name, i, r, m, cfg, cands) {
				return
			}
		}
		if !c.rst && !lenient && len(c.cl.Resps) != len(c.reqs) {
			ep.Fail("C08.body", "connection %s: %d responses for %d requests (leftover %dB, serve err %v)", c.sc.Name, len(c.cl.Resps), len(c.reqs), len(c.cl.Leftover()), c08ErrText(c.sc.Err))
			return
		}
	}
	// HEAD returns the headers of GET: with Compress, the same coding and the same length
	if !lenient && !ep.Failed() {
		type enc struct {
			ce, cl string
			conn   string
		}
		gets := map[string]enc{}
		for pass := 0; pass < 2; pass++ {
			for _, c := range conns {
				for i, m := range c.cl.Resps {
					if i >= len(c.reqs) {
						break
					}
					r := c.reqs[i]
					if r.file == "" || !r.gzip || r.rng != "" || r.ims != "" || r.travers || r.dirlist || m.Status != 200 || len(versions[r.file]) != 1 {
						continue
					}
					ce, _ := m.Get("Content-Encoding")
					cl, _ := m.Get("Content-Length")
					if pass == 0 && r.method == "GET" {
						gets[r.file+"|"+r.path[:2]] = enc{ce, cl, c.sc.Name}
					}
					if pass == 1 && r.method == "HEAD" {
						if g, ok := gets[r.file+"|"+r.path[:2]]; ok && (g.ce != ce || g.cl != cl) {
							ep.Fail("C08.head", "connection %s response %d: HEAD %s (Accept-Encoding: gzip) has Content-Encoding %q Content-Length %q, GET for the same file on %s had Content-Encoding %q Content-Length %q", c.sc.Name, i, r.path, ce, cl, g.conn, g.ce, g.cl)
							return
						}
						ep.Probe("head-vs-get-coding")
					}
				}
			}
		}
	}
	ep.Nontrivial = nconn >= 2
	var ds []string
	for _, c := range conns {
		for _, r := range c.reqs {
			ds = append(ds, fmt.Sprintf("%s %s %s range=%q ims=%v gzip=%v", c.sc.Name, r.method, r.path, r.rng, r.ims != "", r.gzip))
		}
	}
	if len(ds) > 8 {
		ds = ds[:8]
	}
	ep.Sample = map[string]interface{}{"connections": nconn, "requests": ds, "accept_byte_range": accept, "compress": compress, "file_modifications": mods, "cache_duration": cacheDur.String(), "faults": fmt.Sprint(ep.Faults)}
}

type c08cfg struct{ accept, genIdx, compress bool }

// c08CheckResp: the response is right for at least one acceptable version of the file.
func c08CheckResp(ep *core.Episode, conn string, i int, r *c08req, m *wire.Msg, cfg c08cfg, cands []c08ver) bool {
	where := fmt.Sprintf("connection %s response %d (%s %s range=%q gzip=%v final=%v)", conn, i, r.method, r.path, r.rng, r.gzip, r.final)
	head := r.method == "HEAD"
	// content coding: only when asked for, only with Compress, never on a partial response
	body := m.Body
	gz := false
	if ce, ok := m.Get("Content-Encoding"); ok {
		if ce != "gzip" || !r.gzip || !(cfg.compress || strings.HasPrefix(r.path, "/file")) {
			ep.Fail("C08.headers", "%s: Content-Encoding %q (Accept-Encoding gzip sent: %v, Compress: %v)", where, ce, r.gzip, cfg.compress)
			return false
		}
		if m.Status == 206 {
			ep.Fail("C08.headers", "%s: a 206 response is gzip-coded (byte ranges select bytes of the file itself)", where)
			return false
		}
		gz = true
		ep.Probe("gzip-response")
		if !head && m.Status == 200 {
			zr, err := gzip.NewReader(bytes.NewReader(body))
			var plain []byte
			if err == nil {
				plain, err = io.ReadAll(zr)
			}
			if err != nil {
				ep.Fail("C08.body", "%s: body (%dB) is labelled gzip but does not decode: %v", where, len(body), err)
				return false
			}
			body = plain
		}
	}
	if r.travers {
		if m.Status == 200 || m.Status == 206 {
			ep.Fail("C08.root", "%s: traversal attempt answered with %d and %d body bytes", where, m.Status, len(m.Body))
			return false
		}
		return true
	}
	if r.dirlist {
		// generated content: a listing naming every entry, or a refusal when listings are off
		if r.path == "/static" {
			// not under the file handler's route: the router redirects to "/static/"
			if m.Status/100 != 3 {
				ep.Fail("C08.headers", "%s: answered with %d, want the router's redirect", where, m.Status)
				return false
			}
			return true
		}
		if !cfg.genIdx {
			if m.Status != 403 {
				ep.Fail("C08.headers", "%s: directory without index file and GenerateIndexPages off answered with %d, want 403", where, m.Status)
				return false
			}
			return true
		}
		if m.Status == 416 && r.rng != "" && cfg.accept {
			return true
		}
		if m.Status != 200 && !(m.Status == 206 && r.rng != "" && cfg.accept) {
			ep.Fail("C08.headers", "%s: directory listing request answered with %d", where, m.Status)
			return false
		}
		if m.Status == 200 && !head {
			for _, name := range c08DirEntries[r.dir] {
				if !bytes.Contains(body, []byte(">"+name+"<")) {
					ep.Fail("C08.body", "%s: the generated listing (%dB) does not name %q", where, len(body), name)
					return false
				}
			}
			if !bytes.HasSuffix(body, []byte("</ul></body></html>")) {
				ep.Fail("C08.body", "%s: the generated listing (%dB) is truncated", where, len(body))
				return false
			}
		}
		if head && len(m.Body) != 0 {
			ep.Fail("C08.head", "%s: HEAD response carries %d body bytes", where, len(m.Body))
			return false
		}
		return true
	}
	if len(cands) == 0 {
		return true
	}
	if r.ims != "" {
		if m.Status != 304 {
			ep.Fail("C08.headers", "%s: If-Modified-Since at/after the modification time answered with %d", where, m.Status)
			return false
		}
		ep.Probe("ims-304")
		return true
	}
	useRange := cfg.accept && strings.HasPrefix(r.path, "/static")
	if strings.HasPrefix(r.path, "/file") {
		useRange = true // ServeFile's handler accepts byte ranges
	}
	if head && len(m.Body) != 0 {
		ep.Fail("C08.head", "%s: HEAD response carries %d body bytes", where, len(m.Body))
		return false
	}
	// newest version first: its verdict is the one reported when no version fits
	var firstOracle, firstMsg string
	for k := len(cands) - 1; k >= 0; k-- {
		oracle, msg := c08Match(r, m, body, gz, head, useRange, cands[k], r.final)
		if oracle == "" {
			if k != len(cands)-1 {
				ep.Probe("served-older-version")
			}
			return true
		}
		if firstOracle == "" {
			firstOracle, firstMsg = oracle, msg
		}
	}
	if len(cands) > 1 {
		firstMsg += fmt.Sprintf(" (nor does it fit any of the %d earlier versions)", len(cands)-1)
	}
	ep.Fail(firstOracle, "%s: %s", where, firstMsg)
	return false
}

// c08Match judges one response against one version of the file; "" means it fits.
func c08Match(r *c08req, m *wire.Msg, body []byte, gz, head, useRange bool, v c08ver, strictMTime bool) (string, string) {
	if v.deleted {
		if m.Status != 404 {
			return "C08.body", fmt.Sprintf("the file does not exist any more, answered %d with %d body bytes", m.Status, len(body))
		}
		return "", ""
	}
	file := v.data
	n := len(file)
	md := modelRange(r.rng, n, useRange)
	clh, _ := m.Get("Content-Length")
	if lm, ok := m.Get("Last-Modified"); ok && strictMTime && m.Status/100 == 2 {
		if want := v.mtime.UTC().Format("Mon, 02 Jan 2006 15:04:05 GMT"); lm != want {
			return "C08.headers", fmt.Sprintf("Last-Modified %q, the file's modification time is %q", lm, want)
		}
	}
	switch m.Status {
	case 200:
		if !md.full && !(gz && r.rng != "") {
			return "C08.headers", fmt.Sprintf("answered 200 with the whole file, the range selects %v (unsatisfiable=%v)", md.part, md.unsat)
		}
		if !gz && clh != strconv.Itoa(n) {
			return "C08.headers", fmt.Sprintf("Content-Length %q for a %d-byte file", clh, n)
		}
		if !head && !bytes.Equal(body, file) {
			return "C08.body", fmt.Sprintf("body %dB differs from the %d-byte file (first difference at %d)", len(body), n, firstDiff(body, file))
		}
	case 206:
		if len(md.part) == 0 {
			return "C08.headers", fmt.Sprintf("answered 206, acceptable: full=%v unsatisfiable=%v", md.full, md.unsat)
		}
		s, e := md.part[0][0], md.part[0][1]
		wantCR := fmt.Sprintf("bytes %d-%d/%d", s, e, n)
		if cr, _ := m.Get("Content-Range"); cr != wantCR {
			return "C08.headers", fmt.Sprintf("Content-Range %q, want %q", cr, wantCR)
		}
		if clh != strconv.Itoa(e-s+1) {
			return "C08.headers", fmt.Sprintf("Content-Length %q for range %d-%d", clh, s, e)
		}
		if !head && !bytes.Equal(body, file[s:e+1]) {
			return "C08.body", fmt.Sprintf("body %dB is not bytes %d-%d of the file (first difference at %d)", len(body), s, e, firstDiff(body, file[s:e+1]))
		}
	case 416:
		if !md.unsat {
			return "C08.headers", fmt.Sprintf("answered 416, but the range is satisfiable: %v", md.part)
		}
	default:
		return "C08.headers", fmt.Sprintf("unexpected status %d", m.Status)
	}
	return "", ""
}

// c08ErrText renders an error without the per-process part of the private tree's path (replays run in other processes).
func c08ErrText(err error) string {
	if err == nil {
		return "<nil>"
	}
	t := err.Error()
	if c08PrivDir != "" {
		t = strings.ReplaceAll(t, c08PrivDir, "<private tree>")
	}
	return t
}
