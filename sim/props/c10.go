package props

import (
	"bytes"
	"context"
	"errors"
	"fmt"
	"io"
	"sort"
	"strings"
	"sync"
	"time"

	"github.com/cloudwego/hertz/pkg/app/client/retry"
	"github.com/cloudwego/hertz/pkg/common/config"
	errs "github.com/cloudwego/hertz/pkg/common/errors"
	"github.com/cloudwego/hertz/pkg/common/verifhook"
	"github.com/cloudwego/hertz/pkg/protocol"
	pclient "github.com/cloudwego/hertz/pkg/protocol/client"
	"github.com/cloudwego/hertz/pkg/protocol/http1"

	"verifsim/core"
	"verifsim/wire"
)

func init() {
	Registry["C10"] = RunC10
	Metas["C10"] = Meta{
		Rule: "episode = real http1.HostClient (MaxConns 1..4, wait-for-connection off/short/long, MaxIdleConnDuration, MaxConnDuration, read/request/dial timeouts, response streaming, retry config) driven by 2..6 caller tasks x 1..5 calls (GET/POST/PUT, byte or stream bodies, Do/DoTimeout/DoDeadline, contexts cancelled before/during) against a scripted server; per-exchange fault drawn from {ok keep-alive, ok+Connection: close, FIN before first byte, FIN mid-header, FIN mid-body, RST mid-response, stall past the read timeout, trickle around the deadline} plus idle FIN/RST on pooled connections, dial error/stall/timeout, server restart, a bystander calling CloseIdleConnections while connections sit in the pool; responses with Content-Length: 0 among the others; every pool lock boundary (verifhook.Yield), every connection read/write/dial is a scheduler decision; fake clock. Non-trivial: >= 2 callers overlapped inside the pool (two tasks parked at pool yield sites at the same step) or a fault fired inside an exchange; distinct = abstract signature (sequence of yield sites by task role + fault kinds + pool-state tuples). Added later: Content-Length: 0 responses, a bystander calling CloseIdleConnections, use-after-announced-close judged at the client end, unexplained errors in fault-free episodes; and a second scenario on client.Client (host map, per-host HostClients created on first use, 10 s cleaner) with scheduler stalls (runnable tasks held back while timers fire) and the per-host-address connection bound; response bodies larger than what a streaming client reads ahead, and a client-end oracle: no write on a connection after a read on it reported end-of-stream.",
		Real: []string{"http1.HostClient: Do/doNonNilReqResp/acquireConn/queueForIdle/releaseConn/closeConn/decConnsCount/dialConnFor/wantConn/connsCleaner/CloseIdleConnections", "req.Write, resp.ReadHeaders/ReadRespBody/ReadRespBodyStream, clientRespStream", "standard.Conn", "timer pool, context deadlines (fake clock)"},
		Stub: []string{"TCP + dial (SimConn, SimDialer)", "server (scripted actor)", "clock (synctest)"},
		Assumptions: []string{
			"interleavings are explored at the granularity of critical sections and stretches between yield points (DESIGN.md 2.4); data races inside such stretches are not generated",
			"the call-duration bound is computed on the fake clock from the configuration: attempts x (connection wait + dial timeout + max(request timeout, read timeout)) + retry delays + 1ms",
			"a queue entry of a waiter that already gave up is not counted as a queued waiter (the queue is cleaned lazily)",
		},
		RequiredProbes: []string{"yield:acquireConn", "yield:releaseConn", "yield:closeConn", "yield:decConnsCount", "yield:queueForIdle", "yield:dialConnFor", "yield:dialConnFor.deliver", "yield:wantConn.cancel", "yield:acquireConn.woken", "yield:acquireConn.timeout", "yield:connsCleaner.scan", "waiter-delivered-by-release", "waiter-delivered-by-dial", "bad-pool-conn-retry", "cleaner-closed", "stream-release", "fault:stall", "fault:fin-mid-body", "fault:idle-fin", "fault:ctx-cancel", "dial-error", "reaped", "empty-response", "close-idle-connections", "app-client", "sched-stall", "big-response"},
	}
}

type c10call struct {
	id        string
	caller    int
	method    string
	streamReq bool
	timeoutT  time.Duration // request timeout (DoTimeout/DoDeadline), 0 = none
	start     time.Time
	end       time.Time
	returned  bool
	emptyResp bool // the exchange that answered this call carried Content-Length: 0
	bigResp   int  // extra body bytes: the response body is larger than what a streaming client reads ahead
	err       error
	cancelled bool
	status    int
	conns     map[int]bool
}

type c10peer struct {
	p          *PeerConn
	exchanges  int
	lastClean  bool   // previous exchange completed cleanly (full keep-alive response queued, no fault)
	lastID     string // request id of the previous exchange
	dead       bool   // server closed / reset
	closeBy    string // request id of the exchange that announced Connection: close (in the request or the response)
	pendingRst bool   // reset as soon as what was queued has been delivered
	acceptAt   time.Time
}

func RunC10(ep *core.Episode) {
	tp := ep.Tape
	S := ep.S
	// the first draw also selects the layer: values below 10 keep their meaning as MaxConns weights
	// (recorded tapes), the added weight is the client.Client layer above HostClient
	mc := tp.Weighted("maxconns", []int{4, 3, 2, 1, 2})
	if mc == 4 {
		if ep.Param("appclient") != "off" {
			runC10AppClient(ep)
			return
		}
		mc = 0
	}
	nw := core.NewNet(ep)
	dialer := NewSimDialer(ep, nw)

	// ---- configuration (swarm) ----
	maxConns := 1 + mc
	waitT := tp.PickDur("wait", 0, 20*time.Millisecond, 2*time.Second)
	idleDur := tp.PickDur("idledur", 10*time.Second, 100*time.Millisecond)
	maxConnDur := tp.PickDur("conndur", 0, 0, 50*time.Millisecond)
	readT := tp.PickDur("readT", 0, 100*time.Millisecond)
	dialT := tp.PickDur("dialT", 0, 50*time.Millisecond)
	stream := tp.Chance("stream", 1, 3)
	attempts := uint(1)
	retryDelay := time.Duration(0)
	opt := &http1.ClientOptions{Dialer: dialer, MaxConns: maxConns, MaxConnWaitTimeout: waitT, MaxIdleConnDuration: idleDur,
		MaxConnDuration: maxConnDur, ReadTimeout: readT, DialTimeout: dialT, ResponseBodyStream: stream}
	if tp.Chance("retry", 1, 3) {
		attempts = uint(tp.Pick("attempts", 2, 3))
		retryDelay = tp.PickDur("rdelay", 0, 10*time.Millisecond)
		opt.RetryConfig = &retry.Config{MaxAttemptTimes: attempts, Delay: retryDelay, DelayPolicy: retry.FixedDelayPolicy}
		opt.RetryIfFunc = func(req *protocol.Request, resp *protocol.Response, err error) bool {
			return err != nil && pclient.DefaultRetryIf(req, resp, err)
		}
	}
	hc := http1.NewHostClient(opt).(*http1.HostClient)
	hc.SetDynamicConfig(&pclient.DynamicConfig{Addr: "sim.test:80"})

	// enabled fault kinds for this episode (swarm)
	faulty := ep.Param("faults") != "off" && tp.Chance("faulty", 3, 4)
	fw := []int{30, 0, 0, 0, 0, 0, 0, 0} // ok, close, fin0, fin-hdr, fin-body, rst, stall, trickle
	idleFaults := false
	ctxFaults := false
	if faulty {
		for i := 1; i < len(fw); i++ {
			if tp.Choose("fk", 2) == 1 {
				fw[i] = 3
			}
		}
		if readT == 0 {
			fw[6], fw[7] = 0, 0 // a stall needs a timeout to end (calls with a request timeout may still stall, see below)
		}
		idleFaults = tp.Choose("idlef", 2) == 1
		ctxFaults = tp.Choose("ctxf", 2) == 1
		if tp.Choose("dialf", 2) == 1 {
			dialer.W = [3]int{8, 2, 1}
		}
	}
	ep.Logf("config: maxConns=%d wait=%v idle=%v connDur=%v readT=%v dialT=%v stream=%v attempts=%d faults=%v idleF=%v ctxF=%v dialW=%v", maxConns, waitT, idleDur, maxConnDur, readT, dialT, stream, attempts, fw, idleFaults, ctxFaults, dialer.W)

	// ---- bookkeeping ----
	calls := map[string]*c10call{}
	var callOrder []*c10call
	curCall := map[string]*c10call{} // task name -> call in progress
	inProgress := 0
	seen := map[string]int{}     // request id -> times the server saw it begin
	connUser := map[int]string{} // conn id -> request id of the exchange currently using it
	connLog := map[int][]string{}
	peers := map[int]*c10peer{}
	var peerList []*c10peer
	states := map[string]bool{}

	var hmu sync.Mutex // harness bookkeeping touched from hertz goroutines
	// yield hook
	yieldCount := 0
	lastDeliver := ""
	verifhook.OnYield = func(site string, obj interface{}) {
		ep.Probe("yield:" + site)
		yieldCount++
		t := S.Current(site)
		role := t.Name
		if i := strings.IndexAny(role, "-#"); i > 0 {
			role = role[:i]
		}
		ep.Sig("y:" + site + "@" + role)
		if site == "releaseConn" || site == "closeConn" {
			// the call gives the connection up here
			hmu.Lock()
			if cl := curCall[t.Name]; cl != nil {
				for id, u := range connUser {
					if u == cl.id {
						connUser[id] = ""
					}
				}
			}
			hmu.Unlock()
		}
		switch site {
		case "releaseConn", "dialConnFor.deliver":
			lastDeliver = site
		case "acquireConn.woken":
			if lastDeliver == "releaseConn" {
				ep.Probe("waiter-delivered-by-release")
			} else if lastDeliver == "dialConnFor.deliver" {
				ep.Probe("waiter-delivered-by-dial")
			}
		}
		S.Yield(site)
	}
	ep.OnCleanup(func() { verifhook.OnYield = nil })

	// op log for exclusivity
	onOp := func(c *core.SimConn, op string, n int) {
		if op == "close" {
			if t := S.Current("op"); strings.HasPrefix(t.Name, "connsCleaner") {
				ep.Probe("cleaner-closed")
			}
		}
		if op != "read" && op != "write" {
			return
		}
		t := S.Current("op")
		var id int
		fmt.Sscanf(c.Name, "k%d.a", &id)
		hmu.Lock()
		defer hmu.Unlock()
		cl := curCall[t.Name]
		who := "?" + t.Name
		if cl != nil {
			who = cl.id
			cl.conns[id] = true
		}
		if op == "write" && c.SawEOF {
			ep.Fail("C10.reuse", "connection k%d is written to by call %s after a read on it had reported the peer's end-of-stream (users so far: %v)", id, who, connLog[id])
			return
		}
		if pr := peers[id]; pr != nil && pr.closeBy != "" && cl != nil && cl.id != pr.closeBy {
			ep.Fail("C10.reuse", "connection k%d is used by call %s after its exchange for %s announced Connection: close", id, cl.id, pr.closeBy)
			return
		}
		lg := connLog[id]
		if len(lg) == 0 || lg[len(lg)-1] != who {
			connLog[id] = append(lg, who)
		}
	}

	// ---- scripted server ----
	respFor := func(id string, closeHdr, empty bool, extra int) []byte {
		body := "resp-for-" + id + "-" + strings.Repeat("x", 20+len(id)*7+extra)
		if empty {
			body = "" // an explicit Content-Length: 0 on a status that may carry a body
		}
		m := &wire.Msg{Proto: "HTTP/1.1", Status: 200, Reason: "OK", Headers: []wire.Header{{K: "X-Req-Id", V: id}}, Body: []byte(body)}
		if closeHdr {
			m.Headers = append(m.Headers, wire.Header{K: "Connection", V: "close"})
		}
		b, _ := m.Encode()
		return b
	}
	wcap := 0
	if faulty && tp.Chance("wbackpressure", 1, 3) {
		wcap = tp.Pick("wcap", 16, 64, 1000)
	}
	dialer.OnConnect = func(p *PeerConn) {
		if wcap > 0 {
			p.A.Out.Cap = wcap // the server accepts request bytes in pieces: Flush can block and time can pass inside it
		}
		pr := &c10peer{p: p}
		peers[p.ID] = pr
		peerList = append(peerList, pr)
		p.A.OnOp = onOp
	}
	S.AddSource(core.SourceFunc(func(add func(core.Event)) {
		for _, pr := range peerList {
			pr := pr
			if pr.dead {
				continue
			}
			p := pr.p
			if pr.pendingRst {
				if p.A.InflightTo() == 0 {
					add(core.Event{Key: fmt.Sprintf("peer-rst k%d", p.ID), Weight: 20, Apply: func() {
						p.B.Reset()
						pr.dead = true
					}})
				}
				continue
			}
			p.Pump()
			if p.B.PeerClosedWrite() || p.A.IsClosed() {
				// client closed: the server side goes away too
				if !p.B.IsClosed() {
					p.B.Close()
				}
				pr.dead = true
				continue
			}
			if p.Off < len(p.Rx) {
				// request bytes pending: is a complete request there?
				m, n, err := wire.ParseRequest(p.Rx[p.Off:])
				if err == wire.ErrIncomplete {
					continue
				}
				if err != nil {
					ep.Fail("C10.request-wellformed", "client sent bytes that are not a well-formed request on conn k%d: %v", p.ID, err)
					return
				}
				add(core.Event{Key: fmt.Sprintf("serve k%d x%d", p.ID, pr.exchanges), Weight: 25, Apply: func() {
					p.Off += n
					id, _ := m.Get("X-Req-Id")
					seen[id]++
					cl := calls[id]
					// reuse oracle
					if pr.exchanges > 0 {
						prev := calls[pr.lastID]
						switch {
						case !pr.lastClean:
							ep.Fail("C10.reuse", "connection k%d reused for %s although its previous exchange (%s) did not complete cleanly", p.ID, id, pr.lastID)
						case prev != nil && prev.returned && prev.err != nil:
							ep.Fail("C10.reuse", "connection k%d reused for %s although the previous call %s on it returned error %v", p.ID, id, pr.lastID, prev.err)
						case p.A.In.Consumed != p.A.In.Sent:
							ep.Fail("C10.reuse", "connection k%d reused for %s with %d bytes of the previous response unread", p.ID, id, p.A.In.Sent-p.A.In.Consumed)
						}
						if ep.Failed() {
							return
						}
						ep.Probe("conn-reused")
					}
					if cl != nil && cl.method == "POST" && seen[id] > 1 {
						ep.Fail("C10.once", "non-idempotent request %s was sent %d times", id, seen[id])
						return
					}
					if wid, ok := connUser[p.ID]; ok && wid != "" && calls[wid] != nil && !calls[wid].returned && wid != id {
						ep.Fail("C10.exclusive", "connection k%d carries request %s while call %s is still using it", p.ID, id, wid)
						return
					}
					connUser[p.ID] = id
					pr.exchanges++
					pr.lastID = id
					pr.lastClean = false
					w := append([]int(nil), fw...)
					if cl != nil && cl.timeoutT > 0 && faulty && readT == 0 {
						w[6] = 2 // the request timeout bounds the stall
					}
					if cl == nil || (readT == 0 && cl.timeoutT == 0) {
						w[6], w[7] = 0, 0
					}
					kind := tp.Weighted("xfault", w)
					closeHdr := kind == 1 || (m.Proto == "HTTP/1.1" && hasClose(m))
					ek := tp.Choose("emptyresp", 7) // 4: empty body; 5, 6: a body beyond what a streaming client reads ahead
					empty := ek == 4
					extra := 0
					if ek >= 5 {
						extra = []int{9000, 20000}[ek-5]
						ep.Probe("big-response")
					}
					if cl != nil {
						cl.emptyResp = empty
						cl.bigResp = extra
					}
					if empty {
						ep.Probe("empty-response")
					}
					full := respFor(id, kind == 1, empty, extra)
					hdrEnd := bytes.Index(full, []byte("\r\n\r\n")) + 4
					ep.Logf("  server k%d: request %s (%s), fault kind %d", p.ID, id, m.Method, kind)
					switch kind {
					case 0, 1:
						p.B.Send(full, 0)
						if closeHdr {
							pr.closeBy = id
							p.B.Close()
							pr.dead = true
							if kind == 1 {
								ep.Fault("fault:conn-close")
							}
						} else {
							pr.lastClean = true
						}
					case 2:
						ep.Fault("fault:fin-before-first-byte")
						p.B.Close()
						pr.dead = true
					case 3:
						ep.Fault("fault:fin-mid-header")
						p.B.Send(full[:1+tp.Choose("hcut", hdrEnd-2)], 0)
						p.B.Close()
						pr.dead = true
					case 4:
						ep.Fault("fault:fin-mid-body")
						p.B.Send(full[:hdrEnd+tp.Choose("bcut", len(full)-hdrEnd)], 0)
						p.B.Close()
						pr.dead = true
					case 5:
						ep.Fault("fault:rst")
						p.B.Send(full[:tp.Choose("rcut", len(full))], 0)
						pr.pendingRst = true
					case 6:
						ep.Fault("fault:stall")
						// nothing is ever sent; the client's timeout must end the call
					case 7:
						ep.Fault("fault:trickle")
						cut := 1 + tp.Choose("tcut", len(full)-1)
						base := readT
						if base == 0 && cl != nil {
							base = cl.timeoutT
						}
						d := base + tp.PickDur("tdelta", -time.Millisecond, time.Millisecond, -time.Microsecond)
						if d < 0 {
							d = 0
						}
						if tp.Choose("tricklekind", 3) == 2 && base > 0 && hdrEnd < len(full) {
							// the header arrives late but in time, the body later than the deadline counted from the
							// start of the exchange, yet sooner than a deadline counted from the header would allow
							ep.Fault("fault:late-header-slow-body")
							p.B.Send(full[:hdrEnd], base*8/10)
							p.B.Send(full[hdrEnd:], base*15/10) // delays count from now: 0.8 T for the header, 1.5 T for the body
							pr.lastClean = true                 // if the client's deadline lets it accept all of it
							break
						}
						p.B.Send(full[:cut], 0)
						p.B.Send(full[cut:], d)
						pr.lastClean = true // if the client still accepts it in time
					}
				}})
				continue
			}
			// idle connection: silent close / reset while pooled
			if idleFaults && pr.exchanges > 0 && pr.lastClean {
				add(core.Event{Key: fmt.Sprintf("idle-fault k%d", p.ID), Weight: 2, Apply: func() {
					if tp.Choose("idlekind", 2) == 0 {
						ep.Fault("fault:idle-fin")
						p.B.Close()
					} else {
						ep.Fault("fault:idle-rst")
						p.B.Reset()
					}
					pr.dead = true
					pr.lastClean = false
				}})
			}
		}
	}))

	// write backpressure: the server side accepts what the client wrote, piece by piece
	S.AddSource(core.SourceFunc(func(add func(core.Event)) {
		if wcap == 0 {
			return
		}
		for _, pr := range peerList {
			pr := pr
			if k := pr.p.B.InflightTo(); k > 0 && !pr.dead {
				if pr.acceptAt.IsZero() {
					// a slow reader: the latency is drawn around the configured deadlines so that
					// "accepted exactly when the budget runs out" is a common case, not an accident
					d := tp.PickDur("acceptlat", 0, 0, 0, 150*time.Millisecond, 150*time.Millisecond-time.Microsecond, 150*time.Millisecond+time.Microsecond, 100*time.Millisecond, 20*time.Millisecond)
					pr.acceptAt = time.Now().Add(d)
					if d > 0 {
						time.AfterFunc(d, S.Poke)
					}
				}
				if time.Now().Before(pr.acceptAt) {
					continue
				}
				add(core.Event{Key: fmt.Sprintf("accept k%d", pr.p.ID), Weight: 15, Apply: func() {
					pr.p.B.AcceptFromWriter(k)
					pr.acceptAt = time.Time{}
					ep.Fault("write-backpressure")
				}})
			}
		}
	}))

	// ---- callers ----
	ncallers := 2 + tp.Choose("ncallers", 5)
	var tasks []*core.Task
	type cancelReq struct {
		call   *c10call
		cancel context.CancelFunc
		done   bool
	}
	var cancels []*cancelReq
	for ci := 0; ci < ncallers; ci++ {
		ci := ci
		ncalls := 1 + tp.Choose("ncalls", 5)
		name := fmt.Sprintf("caller-%d", ci)
		tasks = append(tasks, S.Go(name, func() {
			for k := 0; k < ncalls && !ep.Failed(); k++ {
				cl := &c10call{id: fmt.Sprintf("c%d-%d", ci, k), caller: ci, conns: map[int]bool{}}
				cl.method = []string{"GET", "POST", "PUT", "GET"}[tp.Choose("method", 4)]
				calls[cl.id] = cl
				callOrder = append(callOrder, cl)
				req := protocol.AcquireRequest()
				resp := protocol.AcquireResponse()
				req.SetRequestURI("http://sim.test/" + cl.id)
				req.Header.SetMethod(cl.method)
				req.Header.Set("X-Req-Id", cl.id)
				if cl.method != "GET" {
					body := []byte("body-of-" + cl.id)
					if tp.Chance("streambody", 1, 3) {
						cl.streamReq = true
						req.SetBodyStream(bytes.NewReader(body), len(body))
					} else {
						req.SetBody(body)
					}
				}
				ctx := context.Background()
				api := tp.Weighted("api", []int{4, 2, 2})
				var cr *cancelReq
				if ctxFaults {
					switch tp.Weighted("ctxmode", []int{6, 1, 2}) {
					case 1:
						c2, cancel := context.WithCancel(ctx)
						cancel()
						ctx = c2
						cl.cancelled = true
						ep.Fault("fault:ctx-cancel")
					case 2:
						c2, cancel := context.WithCancel(ctx)
						ctx = c2
						cr = &cancelReq{call: cl, cancel: cancel}
						cancels = append(cancels, cr)
					}
				}
				hmu.Lock()
				curCall[name] = cl
				inProgress++
				hmu.Unlock()
				cl.start = time.Now()
				var err error
				switch api {
				case 0:
					err = hc.Do(ctx, req, resp)
				case 1:
					cl.timeoutT = 150 * time.Millisecond
					err = hc.DoTimeout(ctx, req, resp, cl.timeoutT)
				case 2:
					cl.timeoutT = 150 * time.Millisecond
					err = hc.DoDeadline(ctx, req, resp, time.Now().Add(cl.timeoutT))
				}
				cl.end = time.Now()
				// several goroutines may leave hertz at the same simulated instant
				// (timers); from here on the harness runs one task at a time again
				S.Yield("caller.afterDo")
				cl.err = err
				if cr != nil {
					cr.done = true
				}
				ep.Logf("  %s %s(%s) -> %v after %v", name, []string{"Do", "DoTimeout", "DoDeadline"}[api], cl.id, err, cl.end.Sub(cl.start))
				if err == nil {
					cl.status = resp.StatusCode()
					// the response is the response to this caller's request
					want := "resp-for-" + cl.id + "-" + strings.Repeat("x", 20+len(cl.id)*7+cl.bigResp)
					if cl.emptyResp {
						want = ""
					}
					var body []byte
					var rerr error
					if resp.IsBodyStream() {
						ep.Probe("stream-response")
						mode := tp.Choose("consume", 3)
						bs := resp.BodyStream()
						switch mode {
						case 0:
							body, rerr = io.ReadAll(bs)
						case 1:
							buf := make([]byte, 5)
							n, _ := io.ReadFull(bs, buf)
							body = buf[:n]
						}
						S.Yield("caller.beforeBodyClose")
						if cerr := resp.CloseBodyStream(); cerr != nil {
							ep.Logf("  %s close body stream: %v", name, cerr)
						}
						ep.Probe("stream-release")
						if mode != 0 {
							want = want[:len(body)]
						}
					} else {
						body = resp.Body()
					}
					if got := string(resp.Header.Peek("X-Req-Id")); got != cl.id {
						ep.Fail("C10.match", "call %s received the response to request %q", cl.id, got)
					} else if rerr == nil && string(body) != want {
						ep.Fail("C10.match", "call %s received body %q, want %q", cl.id, wire.Trunc(string(body), 60), wire.Trunc(want, 60))
					} else if rerr != nil {
						// a stream may legitimately fail mid-body (fault injected after the header)
						cl.err = rerr
					}
					if len(cl.conns) >= 2 && attempts == 1 {
						ep.Probe("bad-pool-conn-retry")
					}
				} else if errors.Is(err, errs.ErrBadPoolConn) {
					ep.Probe("bad-pool-conn-returned")
				}
				// an episode without any injected fault, a call without any timeout and an uncancelled context:
				// the only legitimate failure is a saturated pool
				if err != nil && !faulty && cl.timeoutT == 0 && readT == 0 && dialT == 0 && !cl.cancelled && cr == nil &&
					!errors.Is(err, errs.ErrNoFreeConns) && ep.Param("faults") != "off" {
					ep.Fail("C10.match", "call %s (no timeout, no fault injected anywhere in this episode) failed with %v", cl.id, err)
				}
				hmu.Lock()
				cl.returned = true
				inProgress--
				delete(curCall, name)
				hmu.Unlock()
				for id, u := range connUser {
					if u == cl.id {
						connUser[id] = ""
					}
				}
				// duration bound
				if !cl.cancelled {
					per := time.Duration(0)
					switch {
					case cl.timeoutT > 0:
						per = cl.timeoutT
					case readT > 0 && wcap == 0:
						// a read timeout alone does not bound a peer that stalls while accepting
						// the request (no write timeout is configured in these episodes)
						per = readT
					}
					if per > 0 {
						dT := dialT
						if dT == 0 {
							dT = cl.timeoutT
						}
						if dialer.W[2] == 0 {
							dT = 0
						}
						bound := time.Duration(attempts)*(waitT+2*dT+per) + time.Duration(attempts)*retryDelay + time.Millisecond
						d := cl.end.Sub(cl.start)
						if cl.timeoutT == 0 {
							// a read timeout says nothing about how long connecting may take: time this call spent in dials is not counted
							for _, dl := range dialer.Dials {
								if dl.By == name && !dl.Started.Before(cl.start) && !dl.Ended.IsZero() {
									d -= dl.Ended.Sub(dl.Started)
								}
							}
						}
						if d > bound {
							ep.Fail("C10.timeout", "call %s (request timeout %v, read timeout %v) returned after %v of simulated time, bound %v (err=%v)", cl.id, cl.timeoutT, readT, d, bound, err)
						}
					}
				}
				protocol.ReleaseRequest(req)
				protocol.ReleaseResponse(resp)
			}
		}))
	}
	// context cancellation during a call
	S.AddSource(core.SourceFunc(func(add func(core.Event)) {
		for i, cr := range cancels {
			cr := cr
			if cr.done || cr.call.cancelled || cr.call.start.IsZero() {
				continue
			}
			add(core.Event{Key: fmt.Sprintf("cancel-ctx %d %s", i, cr.call.id), Weight: 1, Apply: func() {
				cr.call.cancelled = true
				cr.cancel()
				ep.Fault("fault:ctx-cancel")
			}})
		}
	}))
	// server restart: every connection reset, dials refused for a while
	restarted := false
	if faulty && tp.Chance("restartf", 1, 4) {
		S.AddSource(core.SourceFunc(func(add func(core.Event)) {
			if restarted || len(peerList) == 0 || inProgress == 0 {
				return
			}
			add(core.Event{Key: "server-restart", Weight: 1, Apply: func() {
				restarted = true
				ep.Fault("fault:server-restart")
				for _, pr := range peerList {
					if !pr.dead {
						pr.p.B.Reset()
						pr.dead = true
						pr.lastClean = false
					}
				}
				dialer.RefuseAll = true
				time.AfterFunc(30*time.Millisecond, func() { dialer.RefuseAll = false })
			}})
		}))
	}

	// ---- invariants after every step ----
	openConns := func() (open int) {
		for _, pr := range peerList {
			if !pr.p.A.IsClosed() {
				open++
			}
		}
		return
	}
	overlapSeen := false
	S.Invariant = func() {
		st := hc.ConnPoolState()
		if st.TotalConnNum > maxConns {
			ep.Fail("C10.max", "pool counts %d connections, MaxConns is %d", st.TotalConnNum, maxConns)
		}
		if o := openConns(); o+dialer.InProgress > maxConns {
			ep.Fail("C10.max", "%d open connections + %d dials in progress exceed MaxConns %d", o, dialer.InProgress, maxConns)
		}
		if p := hc.PendingRequests(); p < 0 || p > inProgress {
			ep.Fail("C10.gauge-range", "pending-request gauge %d with %d calls in progress", p, inProgress)
		}
		states[fmt.Sprintf("T%d/P%d/W%d/U%d/D%d", st.TotalConnNum, st.PoolConnNum, st.WaitConnNum, st.TotalConnNum-st.PoolConnNum, dialer.InProgress)] = true
		if !overlapSeen {
			n := 0
			for _, site := range S.ParkedSites() {
				switch {
				case strings.HasPrefix(site, "acquireConn"), strings.HasPrefix(site, "releaseConn"), strings.HasPrefix(site, "closeConn"), strings.HasPrefix(site, "decConnsCount"), strings.HasPrefix(site, "queueForIdle"), strings.HasPrefix(site, "dialConnFor"), strings.HasPrefix(site, "wantConn"):
					n++
				}
			}
			if n >= 2 {
				overlapSeen = true
			}
		}
	}
	S.PassTimeWeight = 1
	S.Quanta = []time.Duration{time.Microsecond, time.Millisecond, 10 * time.Millisecond, 60 * time.Millisecond}
	S.MaxSteps = 6000
	S.Horizon = 30 * time.Second

	// CloseIdleConnections called by a bystander at moments the scheduler picks while connections are idle in the pool
	var closer *core.Task
	closerAbort := false
	if tp.Chance("closer", 1, 3) {
		nclose := 1 + tp.Choose("nclose", 2)
		closer = S.Go("closer", func() {
			for k := 0; k < nclose && !closerAbort; k++ {
				S.Block(closer, "closer.wait")
				if closerAbort {
					return
				}
				hc.CloseIdleConnections()
				ep.Fault("close-idle-connections")
			}
		})
		S.AddSource(core.SourceFunc(func(add func(core.Event)) {
			if closer.Done || closer.Site() != "closer.wait" || closerAbort {
				return
			}
			if st := hc.ConnPoolState(); st.PoolConnNum >= 1 && inProgress > 0 {
				add(core.Event{Key: "closer-go", Weight: 2, Apply: func() { S.Release(closer) }})
			}
		}))
	}
	allDone := func() bool {
		for _, t := range tasks {
			if !t.Done {
				return false
			}
		}
		return true
	}
	res := S.Run(allDone)
	if closer != nil && res == core.RunDone {
		// the bystander ends with the callers (a call it already began runs to its end)
		closerAbort = true
		if closer.Site() == "closer.wait" {
			S.Release(closer)
		}
		res = S.Run(func() bool { return closer.Done })
		tasks = append(tasks, closer)
	}
	for _, t := range tasks {
		if t.Panic != nil {
			if PanicInHertz(t.Stack) {
				ep.Fail("C10.panic:"+shortFunc(panicTop(t.Stack)), "panic in hertz client: %v at %s", t.Panic, panicTop(t.Stack))
			} else {
				ep.Infra = fmt.Sprintf("harness panic: %v\n%s", t.Panic, t.Stack)
			}
			return
		}
	}
	switch res {
	case core.RunViolation:
		return
	case core.RunStepCap:
		ep.Infra = "step cap"
		return
	case core.RunDeadlock:
		var stuck []string
		for _, cl := range callOrder {
			if !cl.returned {
				stuck = append(stuck, cl.id)
			}
		}
		ep.Fail("C10.stuck", "calls %v never returned although nothing more can happen (pool %+v); %s", stuck, hc.ConnPoolState(), S.Describe())
		return
	}

	// ---- exclusivity over the whole history ----
	var connIDs []int
	for id := range connLog {
		connIDs = append(connIDs, id)
	}
	sort.Ints(connIDs) // map order must not decide which violation is reported
	for _, id := range connIDs {
		lg := connLog[id]
		last := map[string]int{}
		for i, who := range lg {
			if j, ok := last[who]; ok && j != i-1 {
				ep.Fail("C10.exclusive", "connection k%d was used by %s, then by %s, then by %s again", id, who, lg[i-1], who)
				return
			}
			last[who] = i
		}
	}

	// ---- quiescence: faults stopped, all calls returned ----
	idleFaults = false
	ctxFaults = false
	S.PassTimeWeight = 0
	// bounded liveness: within 5s of simulated time after the last fault every
	// goroutine hertz started has finished its work (dials, hand-overs)
	settled := false
	S.MaxSteps = S.Steps + 4000
	for i := 0; i < 500; i++ {
		if r := S.Run(func() bool { return !S.AnyRunnable() }); r == core.RunStepCap {
			ep.Fail("C10.stuck", "pool keeps working without settling after all calls returned (pool %+v, parked %v)", hc.ConnPoolState(), S.ParkedSites())
			return
		}
		if ep.Failed() {
			return
		}
		if dialer.InProgress == 0 && len(S.ParkedSites()) == 0 {
			settled = true
			break
		}
		S.Sleep(10 * time.Millisecond)
	}
	if !settled {
		ep.Fail("C10.stuck", "pool did not settle within 5s of simulated time after all calls returned: %d dials in progress, parked: %v", dialer.InProgress, S.ParkedSites())
		return
	}
	st := hc.ConnPoolState()
	if g := hc.PendingRequests(); g != 0 {
		cancelledBefore := 0
		for _, cl := range callOrder {
			if cl.cancelled {
				cancelledBefore++
			}
		}
		ep.Fail("C10.gauge", "pending-request gauge is %d after all %d calls returned (%d of them had a cancelled context)", g, len(callOrder), cancelledBefore)
		return
	}
	if o := openConns(); o != st.PoolConnNum || st.TotalConnNum != st.PoolConnNum {
		var open []string
		for _, pr := range peerList {
			if !pr.p.A.IsClosed() {
				open = append(open, fmt.Sprintf("k%d(last %s)", pr.p.ID, pr.lastID))
			}
		}
		ep.Fail("C10.leak", "after all calls returned: %d connections open %v, pool holds %d idle, counts %d in total", o, open, st.PoolConnNum, st.TotalConnNum)
		return
	}
	// reaper: idle connections are closed after MaxIdleConnDuration
	if st.TotalConnNum > 0 {
		S.MaxSteps = S.Steps + 4000
		for i := 0; i < 6 && hc.ConnPoolState().TotalConnNum > 0; i++ {
			S.Sleep(idleDur + time.Millisecond)
			if r := S.Run(func() bool { return !S.AnyRunnable() }); r == core.RunStepCap {
				break
			}
		}
		st = hc.ConnPoolState()
		if st.TotalConnNum != 0 || openConns() != 0 {
			ep.Fail("C10.reap", "idle connections not reaped %v after the last use: pool %+v, %d still open", 6*idleDur, st, openConns())
			return
		}
		ep.Probe("reaped")
	}
	for _, cl := range callOrder {
		if errors.Is(cl.err, errs.ErrNoFreeConns) {
			ep.Probe("no-free-conns")
		}
	}
	keys := make([]string, 0, len(states))
	for k := range states {
		keys = append(keys, k)
	}
	sort.Strings(keys)
	ep.States = keys
	ep.Nontrivial = overlapSeen || len(ep.Faults) > 0
	ep.Sample = map[string]interface{}{"callers": ncallers, "calls": len(callOrder), "maxConns": maxConns, "wait": waitT.String(), "connections_dialled": len(dialer.Dials), "faults": fmt.Sprint(ep.Faults), "yields": yieldCount, "pool_states": len(states)}
}

func hasClose(m *wire.Msg) bool {
	v, _ := m.Get("Connection")
	return strings.EqualFold(v, "close")
}

var _ = config.ConnPoolState{}
