package props

import (
	"bufio"
	"bytes"
	"context"
	"errors"
	"fmt"
	"io"
	"mime"
	"mime/multipart"
	"net/http"
	"net/url"
	"sort"
	"strings"
	"time"

	"github.com/cloudwego/hertz/pkg/app"
	errs "github.com/cloudwego/hertz/pkg/common/errors"
	"github.com/cloudwego/hertz/pkg/network/standard"
	"github.com/cloudwego/hertz/pkg/protocol"
	pclient "github.com/cloudwego/hertz/pkg/protocol/client"
	"github.com/cloudwego/hertz/pkg/protocol/http1"

	"verifsim/core"
	"verifsim/wire"
)

func init() {
	Registry["C11"] = RunC11
	Metas["C11"] = Meta{
		Rule: "episode = 1..5 exchanges on one keep-alive connection of the real http1.HostClient: request built through the client API (method, URL with escaped path/query, header Set/Add, body as bytes / stream of known length / unknown length / LimitedReader / PostArgs form / multipart fields+file, basic-auth in the URL, proxy form) x generated response (fixed length, chunked with seeded chunk sizes and trailers, close-delimited, 204/304/HEAD bodiless, 100 Continue interim) x {buffered, streaming} x MaxResponseBodySize {unset, above, below} x header-name normalisation x seeded fragmentation of the response; parties: client <-> scripted server (request bytes decoded by the strict reader and net/http.ReadRequest) and client <-> real hertz server over the simulated network. Non-trivial: >= 2 exchanges or a response delivered in >= 2 fragments; distinct = abstract signature (request shape, response shape, mode, fragment buckets). Added later: server-initiated Connection: close followed by further exchanges, trailer fields without a Trailer announcement, spelling variants of the framing field names, callers that read only a prefix of a streamed body, requests abandoned with a cancelled context whose pooled objects are reused, fault response-cut: a server that dies inside a response body (that exchange is not judged beyond what was read being a prefix of what was sent; the exchanges after it are); fault early-response: the server answers 413 + close as soon as it has the head of a request with a large body, while the client is still writing it into a 2 KB socket buffer (fresh and pooled connections; the response that arrived before the close must be returned); HTTP/1.0 responses in the middle of a history, without a Connection field (the server closes) and with Connection: keep-alive (it does not).",
		Real: []string{"http1.HostClient.Do/doNonNilReqResp", "req.Write/writeBodyStream/handleMultipart", "resp.ReadHeaders/ReadRespBody/ReadRespBodyStream/clientRespStream", "ext.ReadBody/readBodyChunked/ReadTrailer/bodyStream", "standard.Conn", "e2e party: route.Engine + http1.Server"},
		Stub: []string{"TCP + dial (SimConn, SimDialer)", "scripted server (actor) in party (a)", "clock (synctest)"},
		Assumptions: []string{
			"paths are compared after percent-decoding, query arguments as ordered decoded lists (the client may re-encode)",
			"multipart bodies are compared after decoding (field/file names and contents); the boundary value is ignored",
			"the maximum-response-size rule is asserted for buffered mode (error) and, for streaming mode, as 'the call does not fail and the body stream never yields more than the body'",
		},
		RequiredProbes: []string{"body-bytes", "body-stream-n", "body-stream-unknown", "body-limited", "body-form", "body-multipart", "resp-fixed", "resp-chunked", "resp-close-delimited", "resp-bodiless", "resp-100-continue", "resp-trailers", "stream-mode", "limit-below", "conn-reused", "e2e", "fragments", "basic-auth", "proxy-form", "resp-set-cookies", "response-cut-survived", "early-response-reused-conn", "write-epipe-linger", "resp-http10-close", "resp-http10-keepalive"},
	}
}

type c11req struct {
	method   string
	path     string // decoded
	args     [][2]string
	hdrs     []wire.Header
	bodyKind int
	body     []byte      // expected body bytes (non-multipart)
	form     [][2]string // urlencoded form
	mfields  [][2]string // multipart fields (name, value)
	mfile    [3]string   // param, filename, content
	user     string
	pass     string
}

func encodeQuery(args [][2]string) string {
	var sb strings.Builder
	for i, a := range args {
		if i > 0 {
			sb.WriteByte('&')
		}
		sb.WriteString(url.QueryEscape(a[0]))
		sb.WriteByte('=')
		sb.WriteString(url.QueryEscape(a[1]))
	}
	return sb.String()
}

func decodeQueryOrdered(q string) ([][2]string, error) {
	var out [][2]string
	if q == "" {
		return nil, nil
	}
	for _, part := range strings.Split(q, "&") {
		kv := strings.SplitN(part, "=", 2)
		k, err := url.QueryUnescape(kv[0])
		if err != nil {
			return nil, err
		}
		v := ""
		if len(kv) == 2 {
			if v, err = url.QueryUnescape(kv[1]); err != nil {
				return nil, err
			}
		}
		out = append(out, [2]string{k, v})
	}
	return out, nil
}

func RunC11(ep *core.Episode) {
	tp := ep.Tape
	S := ep.S
	nw := core.NewNet(ep)
	dialer := NewSimDialer(ep, nw)
	streamMode := tp.Chance("stream", 1, 2)
	if streamMode {
		ep.Probe("stream-mode")
	}
	limitMode := tp.Weighted("limit", []int{4, 2, 2}) // unset, above, below
	limit := 0
	switch limitMode {
	case 1:
		limit = 1 << 20
	case 2:
		limit = 300
		ep.Probe("limit-below")
	}
	noNorm := tp.Chance("nonorm", 1, 4)
	noPathNorm := tp.Chance("nopathnorm", 1, 4)
	e2e := tp.Chance("e2e", 1, 4)
	proxyForm := !e2e && tp.Chance("proxy", 1, 6)
	opt := &http1.ClientOptions{Dialer: dialer, MaxConns: 1, ResponseBodyStream: streamMode, MaxResponseBodySize: limit,
		DisableHeaderNamesNormalizing: noNorm, DisablePathNormalizing: noPathNorm}
	hc := http1.NewHostClient(opt).(*http1.HostClient)
	hc.SetDynamicConfig(&pclient.DynamicConfig{Addr: "sim.test:80"})
	if proxyForm {
		pu := protocol.AcquireURI()
		pu.Parse(nil, []byte("http://proxy.test:3128/"))
		hc.ProxyURI = pu
		ep.Probe("proxy-form")
	}

	// ---- e2e party: the real hertz server on the other end ----
	var echo *Echo
	var srv *Srv
	if e2e {
		ep.Probe("e2e")
		srv = NewSrv(ep, nw, SrvOpts{BufSize: 4096, DisableNorm: noNorm})
		echo = &Echo{}
		h := func(c context.Context, ctx *app.RequestContext) {
			echo.Handle(c, ctx)
			ctx.Response.Header.Set("X-Echo", "1")
		}
		srv.Eng.Any("/*any", h)
		srv.Eng.NoRoute(h)
		srv.Start()
	}
	var peer *PeerConn
	earlyNext := false // the exchange about to start is an early-response one: its connection gets a small socket buffer
	dialer.OnConnect = func(p *PeerConn) {
		peer = p
		if earlyNext {
			p.A.Out.Cap = 2048
			p.A.LingerData = true
		}
		if e2e {
			p.A.Out.Auto = false
			p.B.Out.Auto = false
			S.Go(fmt.Sprintf("srv-k%d", p.ID), func() {
				defer func() { recover() }()
				srv.Eng.Serve(context.Background(), standard.NewVerifConn(p.B, 4096))
			})
		}
	}

	n := 1 + tp.Weighted("nex", []int{2, 3, 2, 1, 1})
	type exch struct {
		rq        *c11req
		resp      *wire.Msg
		interim   bool
		srvClose  bool
		respBytes []byte
		cut       bool // fault: the server dies inside the response body
		early     bool // the server refuses the request as soon as it has the head: final response + close while the body is still being written
	}
	var exs []*exch
	served := 0
	// scripted server: answer each complete request with the generated response
	if !e2e {
		S.AddSource(core.SourceFunc(func(add func(core.Event)) {
			if peer == nil || served >= len(exs) {
				return
			}
			if exs[served].early {
				// the server takes what has arrived, and as soon as the head is complete (the body is not) it answers and closes
				peer.B.AcceptFromWriter(peer.B.InflightTo())
				peer.Pump()
				rest := peer.Rx[peer.Off:]
				he := bytes.Index(rest, []byte("\r\n\r\n"))
				if he < 0 {
					return
				}
				add(core.Event{Key: fmt.Sprintf("early-respond x%d", served), Weight: 25, Apply: func() {
					ex := exs[served]
					if !bytes.HasPrefix(rest, []byte(ex.rq.method+" ")) {
						ep.Fail("C11.request-strict", "exchange %d: request head does not start with the method %s: %q", served, ex.rq.method, wire.Trunc(string(rest), 80))
						return
					}
					peer.Reqs = append(peer.Reqs, nil)
					peer.Off = len(peer.Rx)
					served++
					peer.A.In.Boundaries = nil
					peer.B.Send(ex.respBytes, 0)
					peer.B.Close()
					ep.Logf("  early response after %dB of the request", len(rest))
				}})
				return
			}
			peer.Pump()
			if peer.Off >= len(peer.Rx) {
				return
			}
			_, nbytes, err := wire.ParseRequest(peer.Rx[peer.Off:])
			if err == wire.ErrIncomplete {
				return
			}
			if err != nil {
				ep.Fail("C11.request-strict", "exchange %d: the client sent bytes that are not a well-formed request: %v; bytes: %q", served, err, wire.Trunc(string(peer.Rx[peer.Off:]), 300))
				return
			}
			add(core.Event{Key: fmt.Sprintf("serve x%d", served), Weight: 25, Apply: func() {
				ex := exs[served]
				peer.Reqs = append(peer.Reqs, nil)
				ex.rq.checkWire(ep, served, peer.Rx[peer.Off:peer.Off+nbytes], proxyForm)
				peer.Off += nbytes
				served++
				peer.A.In.Boundaries = nil
				peer.B.Send(ex.respBytes, 0)
				if ex.srvClose || (ex.resp.NoFraming && ex.resp.Status != 204 && ex.resp.Status != 304 && ex.rq.method != "HEAD") {
					peer.B.Close() // close-delimited, or the server announced Connection: close
				}
			}})
		}))
	}

	var caller *core.Task
	caller = S.Go("caller", func() {
		var heldResp *protocol.Response
		var heldBody []byte
		for i := 0; i < n && !ep.Failed(); i++ {
			rq := genC11Req(tp, ep, i, e2e)
			ex := &exch{rq: rq}
			closeDelim := false
			if !e2e {
				ex.resp, ex.interim, ex.srvClose = genC11Resp(tp, ep, i, rq.method, i == n-1, true)
				closeDelim = ex.resp.NoFraming && ex.resp.Status == 200 && rq.method != "HEAD"
				b, _ := ex.resp.Encode()
				if ex.interim {
					b = append([]byte("HTTP/1.1 100 Continue\r\n\r\n"), b...)
				}
				ex.respBytes = b
			}
			exs = append(exs, ex)
			ab := tp.Choose("abandon", 10) // 5: an abandoned request first; 6, 7: fault - the server dies inside the response body; 8, 9: early final response
			if ab >= 6 && !e2e && !closeDelim && !ex.srvClose && rq.method != "HEAD" && len(ex.resp.Body) >= 2 && ex.resp.Status == 200 {
				b := ex.respBytes
				idx := bytes.Index(b, []byte("\r\n\r\n")) + 4
				if ex.interim {
					idx += bytes.Index(b[idx:], []byte("\r\n\r\n")) + 4
				}
				cut := -1
				if !ex.resp.Chunked {
					cut = idx + 1 + tp.Choose("cutat", len(ex.resp.Body)-1)
				} else if len(ex.resp.ChunkSizes) > 0 && ex.resp.ChunkSizes[0] >= 2 {
					// inside the data of the first chunk
					cut = idx + bytes.Index(b[idx:], []byte("\r\n")) + 2 + 1 + tp.Choose("cutat", ex.resp.ChunkSizes[0]-1)
				}
				if cut > 0 && cut < len(b) {
					ex.respBytes = b[:cut]
					ex.cut, ex.srvClose = true, true
					ep.Fault("response-cut")
				}
			}
			earlyNext = false
			if ab >= 8 && !e2e && rq.bodyKind >= 1 && rq.bodyKind <= 4 && len(rq.body) >= 9000 {
				// RFC 7230 6.6: a server may answer before it has read the whole request and close; the client, whose
				// write then fails, still has to hand that response to the caller (on a fresh and on a reused connection)
				m := &wire.Msg{Proto: "HTTP/1.1", Status: 413, Reason: "Request Entity Too Large", Body: []byte("too large")}
				m.Headers = []wire.Header{{K: "X-Resp", V: fmt.Sprintf("early%d", i)}, {K: "Content-Type", V: "text/plain"}, {K: "Connection", V: "close"}}
				ex.resp, ex.interim, ex.srvClose, ex.early = m, false, true, true
				ex.respBytes, _ = m.Encode()
				closeDelim = false
				earlyNext = true
				if peer != nil {
					S.Mu.Lock()
					peer.A.Out.Cap = 2048
					peer.A.LingerData = true
					S.Mu.Unlock()
					ep.Probe("early-response-reused-conn")
				}
				ep.Fault("early-response")
			}
			if ab == 5 {
				// a request that is prepared and never sent (its context is already cancelled): its objects go
				// back to the pools and come out again for the real exchange
				rqa := genC11Req(tp, ep, 100+i, e2e)
				ra, rra := protocol.AcquireRequest(), protocol.AcquireResponse()
				rqa.apply(ra, tp)
				cctx, cancel := context.WithCancel(context.Background())
				cancel()
				aerr := hc.Do(cctx, ra, rra)
				S.Yield("caller.afterAbandon")
				if aerr == nil {
					ep.Fail("C11.response", "exchange %d: Do with an already cancelled context returned nil", i)
					return
				}
				protocol.ReleaseRequest(ra)
				protocol.ReleaseResponse(rra)
				ep.Probe("abandoned-request")
			}
			req := protocol.AcquireRequest()
			resp := protocol.AcquireResponse()
			rq.apply(req, tp)
			ep.Logf("exchange %d: %s", i, rq.describe())
			if !e2e {
				ep.Logf("  response: status=%d chunked=%v %v body=%dB trailers=%d interim=%v closeDelimited=%v", ex.resp.Status, ex.resp.Chunked, ex.resp.ChunkSizes, len(ex.resp.Body), len(ex.resp.Trailers), ex.interim, closeDelim)
			}
			err := hc.Do(context.Background(), req, resp)
			S.Yield("caller.afterDo")
			if e2e {
				if err != nil {
					ep.Fail("C11.request-hertz", "exchange %d against the hertz server failed: %v", i, err)
					return
				}
				if resp.IsBodyStream() {
					io.ReadAll(resp.BodyStream())
					resp.CloseBodyStream()
				}
				if len(echo.Seen) != i+1 {
					ep.Fail("C11.request-hertz", "exchange %d: hertz server handled %d requests", i, len(echo.Seen))
					return
				}
				rq.checkHertz(ep, i, echo.Seen[i])
			} else if ex.cut {
				// not a conforming response: the outcome of this exchange is not judged (beyond what was read being what was
				// sent); the exchanges after it are
				if err == nil && resp.IsBodyStream() {
					var b []byte
					if tp.Choose("cutread", 2) == 0 {
						b, _ = io.ReadAll(resp.BodyStream())
					} else {
						b = make([]byte, 1)
						k, _ := resp.BodyStream().Read(b)
						b = b[:k]
					}
					resp.CloseBodyStream() //nolint:errcheck
					if !bytes.HasPrefix(ex.resp.Body, b) {
						ep.Fail("C11.response", "exchange %d (response cut short by the server): the %d bytes read from the body stream are not a prefix of the body sent (first difference at %d)", i, len(b), firstDiff(b, ex.resp.Body))
						return
					}
				}
				ep.Probe("response-cut-survived")
				peer = nil
				protocol.ReleaseRequest(req)
				protocol.ReleaseResponse(resp)
				continue
			} else {
				checkC11Resp(ep, i, rq, ex.resp, resp, err, streamMode, limit)
				if closeDelim || ex.srvClose {
					// the server closed: the next exchange needs a new connection
					peer = nil
				}
			}
			if i > 0 {
				ep.Probe("conn-reused")
			}
			// a Response stays the caller's until it is released: the one from the previous exchange is looked at again now
			if heldResp != nil {
				if !bytes.Equal(heldResp.Body(), heldBody) {
					ep.Fail("C11.response", "exchange %d: the body of the response returned by exchange %d (%dB) changed while this exchange ran (first difference at %d)", i, i-1, len(heldBody), firstDiff(heldResp.Body(), heldBody))
					return
				}
				protocol.ReleaseResponse(heldResp)
				heldResp = nil
				ep.Probe("held-response-rechecked")
			}
			protocol.ReleaseRequest(req)
			if err == nil && !e2e && !resp.IsBodyStream() && !ep.Failed() {
				heldResp, heldBody = resp, append([]byte(nil), resp.Body()...)
				continue
			}
			protocol.ReleaseResponse(resp)
		}
	})
	S.MaxSteps = 8000
	res := S.Run(func() bool { return caller.Done })
	// let the client's idle reaper finish (it is a goroutine per HostClient that
	// only ends once every connection is gone): close idle connections, pass the
	// idle duration on the fake clock
	ep.OnCleanup(func() {
		hc.CloseIdleConnections()
		S.Sleep(11 * time.Second)
		S.Sleep(11 * time.Second)
	})
	if caller.Panic != nil {
		if PanicInHertz(caller.Stack) {
			ep.Fail("C11.panic:"+shortFunc(panicTop(caller.Stack)), "panic in hertz client: %v at %s", caller.Panic, panicTop(caller.Stack))
		} else {
			ep.Infra = fmt.Sprintf("harness panic: %v\n%s", caller.Panic, caller.Stack)
		}
		return
	}
	switch res {
	case core.RunDeadlock:
		ep.Fail("C11.response", "client call never returned: %d of %d exchanges done; %s", served, n, S.Describe())
		return
	case core.RunStepCap:
		ep.Infra = "step cap"
		return
	case core.RunViolation:
		return
	}
	if !e2e && peer != nil {
		peer.Pump()
		if peer.Off != len(peer.Rx) {
			ep.Fail("C11.one-message", "%d stray bytes on the wire after the last request: %q", len(peer.Rx)-peer.Off, wire.Trunc(string(peer.Rx[peer.Off:]), 80))
			return
		}
	}
	ep.Nontrivial = n >= 2 || ep.Probes["fragments"] >= 2
	var ds []string
	for _, ex := range exs {
		ds = append(ds, ex.rq.describe())
	}
	ep.Sample = map[string]interface{}{"exchanges": ds, "stream_mode": streamMode, "limit": limit, "e2e": e2e, "fragments": ep.Probes["fragments"]}
}

func (r *c11req) describe() string {
	return fmt.Sprintf("%s %q args=%d hdrs=%d bodyKind=%d body=%dB form=%d mfields=%d mfile=%v auth=%v", r.method, r.path, len(r.args), len(r.hdrs), r.bodyKind, len(r.body), len(r.form), len(r.mfields), r.mfile[0] != "", r.user != "")
}

var c11Paths = []string{"/", "/a/b", "/with space/x", "/p%q", "/ünï/c", "/a+b", "/semi;colon", "/q?inpath"}
var c11Vals = []string{"1", "two words", "a&b=c", "ünï", "%41", "", "x+y", "/slash"}

func genC11Req(tp *core.Tape, ep *core.Episode, i int, e2e bool) *c11req {
	r := &c11req{}
	r.method = []string{"GET", "POST", "PUT", "HEAD", "DELETE", "POST"}[tp.Choose("method", 6)]
	r.path = c11Paths[tp.Choose("path", len(c11Paths))]
	if i > 0 {
		r.path += fmt.Sprint(i)
	}
	na := tp.Choose("nargs", 4)
	for k := 0; k < na; k++ {
		r.args = append(r.args, [2]string{fmt.Sprintf("k%d", k), c11Vals[tp.Choose("argv", len(c11Vals))]})
	}
	nh := tp.Choose("nh", 4)
	for k := 0; k < nh; k++ {
		r.hdrs = append(r.hdrs, wire.Header{K: []string{"X-Custom-A", "x-lower-b", "Accept", "X-Custom-A"}[tp.Choose("hk", 4)], V: fmt.Sprintf("hv%d-%d", i, k)})
	}
	if tp.Chance("auth", 1, 6) {
		r.user, r.pass = "user", "pass"
		ep.Probe("basic-auth")
	}
	if r.method == "POST" || r.method == "PUT" {
		r.bodyKind = 1 + tp.Choose("bodykind", 6)
		size := []int{0, 1, 100, 4095, 4096, 4097, 9000, 70000}[tp.Choose("bsz", 8)]
		switch r.bodyKind {
		case 1:
			r.body = core.PatternBytes(byte(20+i), size)
			ep.Probe("body-bytes")
		case 2:
			r.body = core.PatternBytes(byte(20+i), size)
			ep.Probe("body-stream-n")
		case 3:
			r.body = core.PatternBytes(byte(20+i), size)
			ep.Probe("body-stream-unknown")
		case 4:
			r.body = core.PatternBytes(byte(20+i), size)
			ep.Probe("body-limited")
		case 5:
			nf := 1 + tp.Choose("nform", 3)
			for k := 0; k < nf; k++ {
				r.form = append(r.form, [2]string{fmt.Sprintf("f%d", k), c11Vals[tp.Choose("fv", len(c11Vals))]})
			}
			ep.Probe("body-form")
		case 6:
			nf := tp.Choose("nmf", 3)
			for k := 0; k < nf; k++ {
				r.mfields = append(r.mfields, [2]string{fmt.Sprintf("m%d", k), c11Vals[tp.Choose("mv", len(c11Vals))]})
			}
			if nf == 0 || tp.Choose("mfile", 2) == 1 {
				r.mfile = [3]string{"upload", "file name.txt", string(core.PatternBytes(byte(30+i), 1+tp.Choose("fsz", 5000)))}
			}
			ep.Probe("body-multipart")
		}
	}
	return r
}

func (r *c11req) apply(req *protocol.Request, tp *core.Tape) {
	u := &url.URL{Scheme: "http", Host: "sim.test", Path: r.path, RawQuery: encodeQuery(r.args)}
	if r.user != "" {
		u.User = url.UserPassword(r.user, r.pass)
	}
	req.SetRequestURI(u.String())
	req.Header.SetMethod(r.method)
	seen := map[string]bool{}
	for _, h := range r.hdrs {
		if seen[strings.ToLower(h.K)] {
			req.Header.Add(h.K, h.V)
		} else {
			req.Header.Set(h.K, h.V)
		}
		seen[strings.ToLower(h.K)] = true
	}
	mk := func() io.Reader {
		pr := &pieceReader{data: append([]byte(nil), r.body...), eofw: tp.Choose("reofw", 2) == 1}
		for i := 0; i < 5; i++ {
			pr.sizes = append(pr.sizes, 1+tp.Choose("rsz", 6000))
		}
		return pr
	}
	switch r.bodyKind {
	case 1:
		req.SetBody(r.body)
	case 2:
		req.SetBodyStream(mk(), len(r.body))
	case 3:
		req.SetBodyStream(mk(), -1)
	case 4:
		req.SetBodyStream(&io.LimitedReader{R: mk(), N: int64(len(r.body))}, -1)
	case 5:
		for _, f := range r.form {
			req.PostArgs().Add(f[0], f[1])
		}
		req.Header.SetContentTypeBytes([]byte("application/x-www-form-urlencoded"))
	case 6:
		var fs []*protocol.MultipartField
		for _, f := range r.mfields {
			fs = append(fs, &protocol.MultipartField{Param: f[0], Reader: strings.NewReader(f[1])})
		}
		req.SetMultipartFields(fs...)
		if r.mfile[0] != "" {
			// a reader that returns its content in short pieces (first read short, not at EOF)
			fr := &pieceReader{data: []byte(r.mfile[2]), eofw: tp.Choose("feofw", 2) == 1}
			for i := 0; i < 6; i++ {
				fr.sizes = append(fr.sizes, 1+tp.Choose("fsz2", 700))
			}
			req.SetFileReader(r.mfile[0], r.mfile[1], fr)
		}
	}
}

// checkWire: the bytes of one request as sent, decoded by the strict reader and by net/http.
func (r *c11req) checkWire(ep *core.Episode, i int, raw []byte, proxyForm bool) {
	m, n, err := wire.ParseRequest(raw)
	if err != nil || n != len(raw) {
		ep.Fail("C11.request-strict", "exchange %d: strict parse failed: %v", i, err)
		return
	}
	hr, err := http.ReadRequest(bufio.NewReader(bytes.NewReader(raw)))
	if err != nil {
		ep.Fail("C11.request-nethttp", "exchange %d: net/http.ReadRequest fails on the bytes sent: %v; head: %q", i, err, wire.Trunc(string(raw), 200))
		return
	}
	hbody, err := io.ReadAll(hr.Body)
	if err != nil {
		ep.Fail("C11.request-nethttp", "exchange %d: net/http body read fails: %v", i, err)
		return
	}
	if hr.Method != m.Method || hr.Method != r.method {
		ep.Fail("C11.request-strict", "exchange %d: method on the wire %q / net/http %q, API set %q", i, m.Method, hr.Method, r.method)
		return
	}
	// target
	target := m.Target
	if proxyForm {
		if !strings.HasPrefix(target, "http://sim.test") {
			ep.Fail("C11.request-strict", "exchange %d: proxy form expected an absolute target, got %q", i, target)
			return
		}
		target = strings.TrimPrefix(target, "http://sim.test")
	}
	if !strings.HasPrefix(target, "/") {
		ep.Fail("C11.request-strict", "exchange %d: target %q is not in origin form", i, target)
		return
	}
	pth, q := target, ""
	if k := strings.IndexByte(target, '?'); k >= 0 {
		pth, q = target[:k], target[k+1:]
	}
	dp, err := url.PathUnescape(pth)
	if err != nil || dp != r.path {
		ep.Fail("C11.request-strict", "exchange %d: path on the wire %q decodes to %q (%v), API set %q", i, pth, dp, err, r.path)
		return
	}
	args, err := decodeQueryOrdered(q)
	if err != nil || fmt.Sprint(args) != fmt.Sprint(r.args) {
		ep.Fail("C11.request-strict", "exchange %d: query on the wire %q decodes to %v (%v), API set %v", i, q, args, err, r.args)
		return
	}
	if hr.URL.Path != r.path && !proxyForm {
		ep.Fail("C11.request-nethttp", "exchange %d: net/http decodes path %q, API set %q", i, hr.URL.Path, r.path)
		return
	}
	if host, _ := m.Get("Host"); host != "sim.test" || hr.Host != "sim.test" {
		ep.Fail("C11.request-strict", "exchange %d: Host %q (net/http %q), want sim.test", i, host, hr.Host)
		return
	}
	r.checkHeadersBody(ep, "C11.request-strict", i, m.Headers, m.Body)
	if !ep.Failed() && !bytes.Equal(hbody, m.Body) {
		ep.Fail("C11.request-nethttp", "exchange %d: net/http decodes a %dB body, strict reader %dB", i, len(hbody), len(m.Body))
	}
}

func (r *c11req) checkHeadersBody(ep *core.Episode, oracle string, i int, hs []wire.Header, body []byte) {
	// custom headers: multiset of what was set
	var want, got []string
	for _, h := range r.hdrs {
		want = append(want, strings.ToLower(h.K)+": "+h.V)
	}
	ct := ""
	auth := ""
	for _, h := range hs {
		switch strings.ToLower(h.K) {
		case "host", "user-agent", "content-length", "transfer-encoding", "connection", "proxy-authorization", "trailer":
		case "content-type":
			ct = h.V
		case "authorization":
			auth = h.V
		default:
			got = append(got, strings.ToLower(h.K)+": "+h.V)
		}
	}
	sort.Strings(want)
	sort.Strings(got)
	if strings.Join(want, "|") != strings.Join(got, "|") {
		ep.Fail(oracle, "exchange %d: header fields seen %v, API set %v", i, got, want)
		return
	}
	if r.user != "" {
		if auth != "Basic dXNlcjpwYXNz" {
			ep.Fail(oracle, "exchange %d: Authorization %q for user:pass", i, auth)
			return
		}
	}
	switch r.bodyKind {
	case 0:
		if len(body) != 0 {
			ep.Fail(oracle, "exchange %d: %dB body on a request without one", i, len(body))
		}
	case 1, 2, 3, 4:
		if !bytes.Equal(body, r.body) {
			ep.Fail(oracle, "exchange %d: body %dB, API set %dB (first difference at %d)", i, len(body), len(r.body), firstDiff(body, r.body))
		}
	case 5:
		args, err := decodeQueryOrdered(string(body))
		if err != nil || fmt.Sprint(args) != fmt.Sprint(r.form) {
			ep.Fail(oracle, "exchange %d: form body %q decodes to %v (%v), API set %v", i, wire.Trunc(string(body), 80), args, err, r.form)
		}
		if !strings.HasPrefix(ct, "application/x-www-form-urlencoded") {
			ep.Fail(oracle, "exchange %d: form body with Content-Type %q", i, ct)
		}
	case 6:
		mt, params, err := mime.ParseMediaType(ct)
		if err != nil || mt != "multipart/form-data" || params["boundary"] == "" {
			ep.Fail(oracle, "exchange %d: multipart body with Content-Type %q", i, ct)
			return
		}
		mr := multipart.NewReader(bytes.NewReader(body), params["boundary"])
		var fields [][2]string
		var file [3]string
		for {
			p, err := mr.NextPart()
			if err == io.EOF {
				break
			}
			if err != nil {
				ep.Fail(oracle, "exchange %d: multipart body does not decode: %v", i, err)
				return
			}
			b, _ := io.ReadAll(p)
			if p.FileName() != "" {
				file = [3]string{p.FormName(), p.FileName(), string(b)}
			} else {
				fields = append(fields, [2]string{p.FormName(), string(b)})
			}
		}
		// the order of distinct fields in a multipart body carries no meaning
		sortPairs := func(p [][2]string) [][2]string {
			q := append([][2]string(nil), p...)
			sort.Slice(q, func(a, b int) bool { return q[a][0]+"\x00"+q[a][1] < q[b][0]+"\x00"+q[b][1] })
			return q
		}
		if fmt.Sprint(sortPairs(fields)) != fmt.Sprint(sortPairs(r.mfields)) || file != r.mfile {
			ep.Fail(oracle, "exchange %d: multipart decodes to fields %v file(%q,%q,%dB), API set %v file(%q,%q,%dB)", i, fields, file[0], file[1], len(file[2]), r.mfields, r.mfile[0], r.mfile[1], len(r.mfile[2]))
		}
	}
}

// checkHertz: what the real hertz server saw.
func (r *c11req) checkHertz(ep *core.Episode, i int, o *Obs) {
	if o.Method != r.method {
		ep.Fail("C11.request-hertz", "exchange %d: hertz server saw method %q, API set %q", i, o.Method, r.method)
		return
	}
	pth, q := o.URI, ""
	if k := strings.IndexByte(o.URI, '?'); k >= 0 {
		pth, q = o.URI[:k], o.URI[k+1:]
	}
	dp, err := url.PathUnescape(pth)
	if err != nil || dp != r.path {
		ep.Fail("C11.request-hertz", "exchange %d: hertz server saw path %q (decoded %q), API set %q", i, pth, dp, r.path)
		return
	}
	args, err := decodeQueryOrdered(q)
	if err != nil || fmt.Sprint(args) != fmt.Sprint(r.args) {
		ep.Fail("C11.request-hertz", "exchange %d: hertz server saw query %q, API set %v", i, q, r.args)
		return
	}
	if o.Host != "sim.test" {
		ep.Fail("C11.request-hertz", "exchange %d: hertz server saw Host %q", i, o.Host)
		return
	}
	hs := append([]wire.Header{}, o.Headers...)
	if o.CT != "" {
		hs = append(hs, wire.Header{K: "Content-Type", V: o.CT})
	}
	r.checkHeadersBody(ep, "C11.request-hertz", i, hs, o.Body)
}

// ext: also draw the later additions (unannounced trailers, framing-name spelling, server-initiated close);
// C02 reuses the generator without them so that its recorded tapes keep their meaning.
func genC11Resp(tp *core.Tape, ep *core.Episode, i int, method string, last, ext bool) (*wire.Msg, bool, bool) {
	m := &wire.Msg{Proto: "HTTP/1.1", Status: 200, Reason: "OK"}
	kind := tp.Weighted("rkind", []int{4, 4, 2, 1})
	size := []int{0, 1, 299, 300, 301, 4095, 4096, 4097, 8192, 8193, 30000}[tp.Choose("rsz", 11)]
	m.Body = core.PatternBytes(byte(60+i), size)
	m.Headers = []wire.Header{{K: "X-Resp", V: fmt.Sprintf("r%d", i)}, {K: "Content-Type", V: "application/x-sim"}}
	if tp.Chance("rhdr2", 1, 3) {
		m.Headers = append(m.Headers, wire.Header{K: "X-Resp", V: "second"}, wire.Header{K: "x-lower", V: "v"})
	}
	if tp.Chance("setcookies", 1, 3) {
		// several Set-Cookie fields, some sharing the cookie name (legal: they differ in Path/Domain)
		m.Headers = append(m.Headers, wire.Header{K: "Set-Cookie", V: "sid=1; Path=/"}, wire.Header{K: "Set-Cookie", V: "sid=2; Path=/app"}, wire.Header{K: "Set-Cookie", V: "other=3"})
		ep.Probe("resp-set-cookies")
	}
	switch kind {
	case 0:
		ep.Probe("resp-fixed")
	case 1:
		m.Chunked = true
		m.ChunkSizes = splitChunks(tp, size)
		m.HexUpper = tp.Choose("hexup", 2) == 1
		if tp.Chance("rtrail", 1, 3) {
			if !ext || tp.Choose("announced", 2) == 0 {
				m.Headers = append(m.Headers, wire.Header{K: "Trailer", V: "X-Trail"})
			} else {
				ep.Probe("resp-trailers-unannounced") // announcing trailer fields is a SHOULD
			}
			m.Trailers = []wire.Header{{K: "X-Trail", V: fmt.Sprintf("t%d", i)}}
			ep.Probe("resp-trailers")
		}
		ep.Probe("resp-chunked")
	case 2:
		if last || ext {
			m.NoFraming = true // close-delimited (in the middle of a history too: the next exchange needs a new connection)
			ep.Probe("resp-close-delimited")
		}
	case 3:
		m.Status = []int{204, 304}[tp.Choose("bl", 2)]
		m.Reason = map[int]string{204: "No Content", 304: "Not Modified"}[m.Status]
		m.Body = nil
		m.NoFraming = true
		ep.Probe("resp-bodiless")
	}
	if method == "HEAD" {
		// headers as for GET, no body on the wire
		if !m.NoFraming && !m.Chunked {
			m.Headers = append(m.Headers, wire.Header{K: "Content-Length", V: fmt.Sprint(len(m.Body))})
		}
		m.Body = nil
		m.Chunked = false
		m.Trailers = nil
		m.NoFraming = true
		hs := m.Headers[:0:0]
		for _, h := range m.Headers {
			if h.K != "Trailer" {
				hs = append(hs, h)
			}
		}
		m.Headers = hs
		ep.Probe("resp-bodiless")
	}
	interim := tp.Chance("interim", 1, 6)
	if interim {
		ep.Probe("resp-100-continue")
	}
	// spelling of the framing field names (field names are case-insensitive)
	if ext && tp.Chance("framecase", 1, 3) {
		k := tp.Choose("framecasek", 3)
		m.CLName = []string{"content-length", "CONTENT-LENGTH", "Content-length"}[k]
		m.TEName = []string{"transfer-encoding", "TRANSFER-ENCODING", "Transfer-encoding"}[k]
		for j := range m.Headers {
			if m.Headers[j].K == "Content-Length" {
				m.Headers[j].K = m.CLName
			}
		}
		ep.Probe("resp-framing-name-case")
	}
	// the server announces that it closes the connection after this (framed) response, and does
	srvClose := false
	if !last && !(m.NoFraming && m.Status == 200 && method != "HEAD") && ext {
		switch v := tp.Choose("srvclose", 8); {
		case v == 5:
			srvClose = true
			m.Headers = append(m.Headers, wire.Header{K: "Connection", V: "close"})
			ep.Probe("resp-connection-close")
		case v == 6 && !m.Chunked:
			// an HTTP/1.0 response without a Connection field: the server closes after it, and says so by its version only
			m.Proto = "HTTP/1.0"
			srvClose = true
			ep.Probe("resp-http10-close")
		case v == 7 && !m.Chunked:
			// HTTP/1.0 with keep-alive: the connection stays open
			m.Proto = "HTTP/1.0"
			m.Headers = append(m.Headers, wire.Header{K: "Connection", V: "keep-alive"})
			ep.Probe("resp-http10-keepalive")
		}
	}
	return m, interim, srvClose
}

func checkC11Resp(ep *core.Episode, i int, rq *c11req, want *wire.Msg, resp *protocol.Response, err error, streamMode bool, limit int) {
	over := limit > 0 && len(want.Body) > limit
	if err != nil {
		if over && !streamMode && errors.Is(err, errs.ErrBodyTooLarge) {
			ep.Probe("limit-enforced")
			return
		}
		if over && errors.Is(err, errs.ErrBodyTooLarge) {
			ep.Probe("limit-enforced")
			return
		}
		ep.Fail("C11.response", "exchange %d: Do failed on a conforming response: %v", i, err)
		return
	}
	if over && !streamMode {
		ep.Fail("C11.limit", "exchange %d: %dB response body accepted in buffered mode with MaxResponseBodySize %d", i, len(want.Body), limit)
		return
	}
	if resp.StatusCode() != want.Status {
		ep.Fail("C11.response", "exchange %d: status %d, server sent %d", i, resp.StatusCode(), want.Status)
		return
	}
	var body []byte
	if resp.IsBodyStream() && ep.Tape.Chance("partialread", 1, 4) {
		// the caller looks at the beginning of the streamed body only and closes the stream: the client has to
		// dispose of the rest (or of the connection) before the next exchange
		k := []int{0, 1, 100, len(want.Body) / 2, 4096, 8191}[ep.Tape.Choose("partialk", 6)]
		if k > len(want.Body) {
			k = len(want.Body)
		}
		buf := make([]byte, k)
		n, rerr := io.ReadFull(resp.BodyStream(), buf)
		if rerr != nil && k > 0 {
			ep.Fail("C11.response", "exchange %d: reading %d of %d streamed body bytes failed after %dB: %v", i, k, len(want.Body), n, rerr)
			return
		}
		if !bytes.Equal(buf[:n], want.Body[:k]) {
			ep.Fail("C11.response", "exchange %d: the first %d streamed body bytes differ from what the server sent (first difference at %d)", i, k, firstDiff(buf[:n], want.Body[:k]))
			return
		}
		ep.Probe("stream-partial-read")
		resp.CloseBodyStream() //nolint:errcheck
		return
	}
	if resp.IsBodyStream() {
		b, rerr := io.ReadAll(resp.BodyStream())
		cerr := resp.CloseBodyStream()
		if rerr != nil {
			ep.Fail("C11.response", "exchange %d: reading the body stream failed after %dB: %v", i, len(b), rerr)
			return
		}
		_ = cerr
		body = b
	} else {
		body = resp.Body()
	}
	if !bytes.Equal(body, want.Body) {
		ep.Fail("C11.response", "exchange %d: body %dB, server sent %dB (first difference at %d)", i, len(body), len(want.Body), firstDiff(body, want.Body))
		return
	}
	// header fields
	var wantH, gotH []string
	for _, h := range want.Headers {
		switch strings.ToLower(h.K) {
		case "content-length", "transfer-encoding", "trailer", "connection":
			continue
		}
		wantH = append(wantH, strings.ToLower(h.K)+": "+h.V)
	}
	resp.Header.VisitAll(func(k, v []byte) {
		switch strings.ToLower(string(k)) {
		case "content-length", "transfer-encoding", "trailer", "connection":
			return
		}
		gotH = append(gotH, strings.ToLower(string(k))+": "+string(v))
	})
	sort.Strings(wantH)
	sort.Strings(gotH)
	if strings.Join(wantH, "|") != strings.Join(gotH, "|") {
		ep.Fail("C11.response", "exchange %d: header fields %v, server sent %v", i, gotH, wantH)
		return
	}
	var gotT []string
	resp.Header.Trailer().VisitAll(func(k, v []byte) { gotT = append(gotT, strings.ToLower(string(k))+": "+string(v)) })
	var wantT []string
	for _, t := range want.Trailers {
		wantT = append(wantT, strings.ToLower(t.K)+": "+t.V)
	}
	if _, announced := want.Get("Trailer"); !announced && len(gotT) == 0 {
		// hertz keeps only the trailer fields a Trailer header announced; what matters for the
		// unannounced ones is that they are consumed (the next exchange on the connection decodes)
		return
	}
	if strings.Join(wantT, "|") != strings.Join(gotT, "|") {
		ep.Fail("C11.response", "exchange %d: trailers %v, server sent %v", i, gotT, wantT)
	}
}
