package props

import (
	"bytes"
	"context"
	"fmt"
	"io"
	"strings"

	"github.com/cloudwego/hertz/pkg/app"

	"verifsim/core"
	"verifsim/wire"
)

// Obs is what the echo handler saw for one invocation.
type Obs struct {
	Method, URI  string
	Host, CT, UA string
	Headers      []wire.Header // generic headers in hertz's order
	Body         []byte
	BodyErr      string
	Trailers     []wire.Header
	Partial      bool // the handler stopped reading the streamed body after Limit bytes
	Limit        int
}

func (o *Obs) String() string {
	return fmt.Sprintf("%s %s host=%q ct=%q ua=%q hdr=[%s] body=%dB trailers=[%s] bodyerr=%q",
		o.Method, o.URI, o.Host, o.CT, o.UA, strings.ReplaceAll(wire.HeaderString(o.Headers), "\n", "|"), len(o.Body),
		strings.ReplaceAll(wire.HeaderString(o.Trailers), "\n", "|"), o.BodyErr)
}

// Echo is the catch-all recording handler.
type Echo struct {
	Stream bool
	Seen   []*Obs
	Enter  func()          // called first in every handler invocation
	Limit  func(i int) int // streaming: how many body bytes the handler of invocation i reads (-1: all)
}

func (e *Echo) Handle(c context.Context, ctx *app.RequestContext) {
	if e.Enter != nil {
		e.Enter()
	}
	o := &Obs{}
	o.Method = string(ctx.Request.Header.Method())
	o.URI = string(ctx.Request.Header.RequestURI())
	o.Host = string(ctx.Request.Header.Host())
	o.CT = string(ctx.Request.Header.ContentType())
	o.UA = string(ctx.Request.Header.UserAgent())
	ctx.Request.Header.VisitAllCustomHeader(func(k, v []byte) {
		if wire.EqFold(string(k), "Transfer-Encoding") {
			// framing header: hertz replaces it by the decoded length in buffered
			// mode; framing is judged by the body, not by this field
			return
		}
		o.Headers = append(o.Headers, wire.Header{K: string(k), V: string(v)})
	})
	limit := -1
	if e.Limit != nil {
		limit = e.Limit(len(e.Seen))
	}
	if e.Stream && ctx.Request.IsBodyStream() && limit >= 0 {
		// the handler stops after limit bytes and leaves the rest of the body to the server
		buf := make([]byte, limit)
		n, err := io.ReadFull(ctx.RequestBodyStream(), buf)
		o.Body = buf[:n]
		o.Partial = true
		o.Limit = limit
		if err != nil && err != io.EOF && err != io.ErrUnexpectedEOF {
			o.BodyErr = err.Error()
		}
	} else if e.Stream && ctx.Request.IsBodyStream() {
		b, err := io.ReadAll(ctx.RequestBodyStream())
		o.Body = b
		if err != nil {
			o.BodyErr = err.Error()
		}
	} else {
		o.Body = append([]byte(nil), ctx.Request.Body()...)
	}
	ctx.Request.Header.Trailer().VisitAll(func(k, v []byte) {
		o.Trailers = append(o.Trailers, wire.Header{K: string(k), V: string(v)})
	})
	n := len(e.Seen)
	e.Seen = append(e.Seen, o)
	ctx.SetStatusCode(200)
	ctx.Response.SetBodyString(fmt.Sprintf("#%d %s", n, o.Method))
}

// ExpectObs derives the expected observation from ground truth.
func ExpectObs(g *GenReq, norm bool) *Obs {
	o := &Obs{Method: g.M.Method, URI: g.M.Target, Host: g.Host, CT: g.CT, UA: g.UA, Body: g.M.Body}
	for _, h := range g.ExpHeaders {
		k := h.K
		if norm {
			k = NormName(k)
		}
		if wire.EqFold(k, "Transfer-Encoding") {
			k = "Transfer-Encoding"
		}
		o.Headers = append(o.Headers, wire.Header{K: k, V: h.V})
	}
	for _, h := range g.ExpTrailer {
		k := h.K
		if norm {
			k = NormName(k)
		}
		o.Trailers = append(o.Trailers, wire.Header{K: k, V: h.V})
	}
	return o
}

func sameHeaders(a, b []wire.Header) bool {
	if len(a) != len(b) {
		return false
	}
	for i := range a {
		if a[i].K != b[i].K || a[i].V != b[i].V {
			return false
		}
	}
	return true
}

// DiffObs returns "" if equal, else the first difference.
func DiffObs(got, want *Obs) string {
	switch {
	case got.Method != want.Method:
		return fmt.Sprintf("method %q want %q", got.Method, want.Method)
	case got.URI != want.URI:
		return fmt.Sprintf("target %q want %q", wire.Trunc(got.URI, 80), wire.Trunc(want.URI, 80))
	case got.Host != want.Host:
		return fmt.Sprintf("host %q want %q", got.Host, want.Host)
	case got.CT != want.CT:
		return fmt.Sprintf("content-type %q want %q", got.CT, want.CT)
	case got.UA != want.UA:
		return fmt.Sprintf("user-agent %q want %q", got.UA, want.UA)
	case !sameHeaders(got.Headers, want.Headers):
		return fmt.Sprintf("headers [%s] want [%s]", strings.ReplaceAll(wire.HeaderString(got.Headers), "\n", "|"), strings.ReplaceAll(wire.HeaderString(want.Headers), "\n", "|"))
	case got.BodyErr != "":
		return "body read error " + got.BodyErr
	case got.Partial:
		// the handler read at most Limit bytes: exactly that prefix of the body (trailers are not available yet)
		n := got.Limit
		if n > len(want.Body) {
			n = len(want.Body)
		}
		if !bytes.Equal(got.Body, want.Body[:n]) {
			return fmt.Sprintf("partial read of %d bytes returned %dB that are not the first %d bytes of the %dB body (first difference at %d)", got.Limit, len(got.Body), n, len(want.Body), firstDiff(got.Body, want.Body[:n]))
		}
	case !bytes.Equal(got.Body, want.Body):
		return fmt.Sprintf("body %dB want %dB (first difference at %d)", len(got.Body), len(want.Body), firstDiff(got.Body, want.Body))
	case !sameHeaders(got.Trailers, want.Trailers):
		return fmt.Sprintf("trailers [%s] want [%s]", strings.ReplaceAll(wire.HeaderString(got.Trailers), "\n", "|"), strings.ReplaceAll(wire.HeaderString(want.Trailers), "\n", "|"))
	}
	return ""
}

func firstDiff(a, b []byte) int {
	n := len(a)
	if len(b) < n {
		n = len(b)
	}
	for i := 0; i < n; i++ {
		if a[i] != b[i] {
			return i
		}
	}
	return n
}

// ScriptRequests turns generated requests into client sends.
// mode 0: all back-to-back; 1: ping-pong; 2: per-request choice from the tape.
func ScriptRequests(tp *core.Tape, cl *Client, reqs []*GenReq, mode int) {
	conts := 0
	for i, g := range reqs {
		after := 0
		if mode == 1 || (mode == 2 && tp.Choose("pingpong", 2) == 1) {
			after = i
		}
		cl.Methods = append(cl.Methods, g.M.Method)
		if g.Expect100 {
			conts++
			cl.Sends = append(cl.Sends, Send{Data: g.Bytes[:g.HeadLen], AfterResps: after, AfterContinues: conts - 1, Bounds: g.Bounds, Label: "head"})
			var bb []int
			for _, b := range g.Bounds {
				if b > g.HeadLen {
					bb = append(bb, b-g.HeadLen)
				}
			}
			cl.Sends = append(cl.Sends, Send{Data: g.Bytes[g.HeadLen:], AfterResps: after, AfterContinues: conts, Bounds: bb, Label: "body-after-100"})
		} else {
			cl.Sends = append(cl.Sends, Send{Data: g.Bytes, AfterResps: after, AfterContinues: conts, Bounds: g.Bounds, Label: "req"})
		}
	}
}
