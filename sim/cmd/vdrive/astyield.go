package main

// Scheduling points by source rewriting (DESIGN 8, "inserted yields").
//
// The guarded hooks H2/H5 give the scheduler a say at a handful of hand-picked places. Code
// between two such places runs atomically in the simulation, so a race that needs a goroutine
// switch between two ordinary statements (a Seek and the Read behind it on a shared file, two
// appends to a package-level scratch slice, two compressions writing the same temporary file)
// cannot be reached. For the files listed in astFiles the driver therefore builds the worker
// from a rewritten copy (go build -overlay; /repo is not touched):
//
//   - a call verifhook.Yield("ast", nil) is inserted in front of every statement of every
//     function body (function literals included; functions handed to sync.Once.Do excluded,
//     they run under the Once's own mutex);
//   - "x.Lock()" / "x.RLock()" statements become "for !x.TryLock() { verifhook.Yield("ast-lock", nil) }",
//     so that a task waiting for a mutex whose holder is parked at an inserted yield is itself
//     parked at a scheduling point instead of blocking the baton.
//
// The rewritten code is the same program for every schedule the Go runtime could produce; the
// scenarios decide per episode (tape draw) whether the inserted yields are honoured. If a file
// cannot be rewritten, or the overlay build fails, the worker is built from the plain tree and
// the evidence says so (probe ast-overlay-missing).

import (
	"bytes"
	"encoding/json"
	"fmt"
	"go/ast"
	"go/parser"
	"go/printer"
	"go/token"
	"os"
	"path/filepath"
	"strconv"
)

// files rewritten per property (relative to the repository root)
var astFiles = map[string][]string{
	"C08": {"pkg/app/fs.go"},
	// (http1/client.go is not rewritten: the C10 harness reads the pool state from the scheduler loop, which must
	// not meet a lock whose holder is parked)
	"C10": {"pkg/app/client/client.go"},
	"C18": {"pkg/network/standard/transport.go"},
	"C15": {"pkg/app/server/binding/internal/decoder/tag.go", "pkg/app/server/binding/internal/decoder/decoder.go",
		"pkg/app/server/binding/internal/decoder/getter.go", "pkg/app/server/binding/default.go"},
}

// properties whose rewritten files take objects from sync.Pools ("if v == nil { v = new... }"): with inserted
// yields the number of scheduling points then depends on pool hits
var astPoolSensitive = map[string]bool{"C08": true, "C15": true}

const verifhookPath = "github.com/cloudwego/hertz/pkg/common/verifhook"

func yieldStmt(site string) ast.Stmt {
	return &ast.ExprStmt{X: &ast.CallExpr{
		Fun:  &ast.SelectorExpr{X: ast.NewIdent("verifhook"), Sel: ast.NewIdent("Yield")},
		Args: []ast.Expr{&ast.BasicLit{Kind: token.STRING, Value: strconv.Quote(site)}, ast.NewIdent("nil")},
	}}
}

// lockLoop returns the replacement for "x.Lock()" / "x.RLock()" or nil.
func lockLoop(s ast.Stmt) ast.Stmt {
	es, ok := s.(*ast.ExprStmt)
	if !ok {
		return nil
	}
	call, ok := es.X.(*ast.CallExpr)
	if !ok || len(call.Args) != 0 {
		return nil
	}
	sel, ok := call.Fun.(*ast.SelectorExpr)
	if !ok {
		return nil
	}
	try := map[string]string{"Lock": "TryLock", "RLock": "TryRLock"}[sel.Sel.Name]
	if try == "" {
		return nil
	}
	cond := &ast.UnaryExpr{Op: token.NOT, X: &ast.CallExpr{Fun: &ast.SelectorExpr{X: sel.X, Sel: ast.NewIdent(try)}}}
	return &ast.ForStmt{Cond: cond, Body: &ast.BlockStmt{List: []ast.Stmt{yieldStmt("ast-lock")}}}
}

type astRewriter struct {
	skipFuncs map[string]bool       // function / method names handed to a Do call
	skipLits  map[*ast.FuncLit]bool // function literals handed to a Do call
	yields    int
	locks     int
}

func (r *astRewriter) list(in []ast.Stmt) []ast.Stmt {
	out := make([]ast.Stmt, 0, 2*len(in))
	for _, s := range in {
		r.stmt(s)
		if l := lockLoop(s); l != nil {
			r.locks++
			out = append(out, l)
			continue
		}
		switch s.(type) {
		case *ast.DeclStmt, *ast.EmptyStmt:
			out = append(out, s)
			continue
		}
		r.yields++
		out = append(out, yieldStmt("ast"), s)
	}
	return out
}

// stmt descends into the statement lists nested in s.
func (r *astRewriter) stmt(s ast.Stmt) {
	switch v := s.(type) {
	case *ast.BlockStmt:
		v.List = r.list(v.List)
	case *ast.IfStmt:
		r.exprs(v.Init, v.Cond)
		r.stmt(v.Body)
		if v.Else != nil {
			r.stmt(v.Else)
		}
	case *ast.ForStmt:
		r.exprs(v.Init, v.Cond, v.Post)
		r.stmt(v.Body)
	case *ast.RangeStmt:
		r.exprs(v.X)
		r.stmt(v.Body)
	case *ast.SwitchStmt:
		r.exprs(v.Init, v.Tag)
		r.clauses(v.Body)
	case *ast.TypeSwitchStmt:
		r.clauses(v.Body)
	case *ast.SelectStmt:
		r.clauses(v.Body)
	case *ast.LabeledStmt:
		r.stmt(v.Stmt)
	default:
		r.exprs(s)
	}
}

func (r *astRewriter) clauses(b *ast.BlockStmt) {
	for _, c := range b.List {
		switch v := c.(type) {
		case *ast.CaseClause:
			v.Body = r.list(v.Body)
		case *ast.CommClause:
			v.Body = r.list(v.Body)
		}
	}
}

// exprs rewrites the bodies of function literals found in the given nodes.
func (r *astRewriter) exprs(nodes ...interface{}) {
	for _, n := range nodes {
		node, ok := n.(ast.Node)
		if !ok || node == nil || isNilNode(node) {
			continue
		}
		ast.Inspect(node, func(x ast.Node) bool {
			if fl, ok := x.(*ast.FuncLit); ok {
				if !r.skipLits[fl] {
					fl.Body.List = r.list(fl.Body.List)
				}
				return false
			}
			return true
		})
	}
}

func isNilNode(n ast.Node) bool {
	switch v := n.(type) {
	case ast.Stmt:
		return v == nil
	case ast.Expr:
		return v == nil
	}
	return false
}

func rewriteFile(src string) ([]byte, int, int, error) {
	fset := token.NewFileSet()
	f, err := parser.ParseFile(fset, src, nil, parser.ParseComments)
	if err != nil {
		return nil, 0, 0, err
	}
	r := &astRewriter{skipFuncs: map[string]bool{}, skipLits: map[*ast.FuncLit]bool{}}
	ast.Inspect(f, func(x ast.Node) bool {
		call, ok := x.(*ast.CallExpr)
		if !ok || len(call.Args) != 1 {
			return true
		}
		if sel, ok := call.Fun.(*ast.SelectorExpr); !ok || sel.Sel.Name != "Do" {
			return true
		}
		switch a := call.Args[0].(type) {
		case *ast.FuncLit:
			r.skipLits[a] = true
		case *ast.Ident:
			r.skipFuncs[a.Name] = true
		case *ast.SelectorExpr:
			r.skipFuncs[a.Sel.Name] = true
		}
		return true
	})
	for _, d := range f.Decls {
		fd, ok := d.(*ast.FuncDecl)
		if !ok || fd.Body == nil || r.skipFuncs[fd.Name.Name] || fd.Name.Name == "init" {
			continue
		}
		fd.Body.List = r.list(fd.Body.List)
	}
	// import
	have := false
	for _, im := range f.Imports {
		if im.Path.Value == strconv.Quote(verifhookPath) {
			have = true
		}
	}
	if !have {
		spec := &ast.ImportSpec{Path: &ast.BasicLit{Kind: token.STRING, Value: strconv.Quote(verifhookPath)}}
		f.Decls = append([]ast.Decl{&ast.GenDecl{Tok: token.IMPORT, Specs: []ast.Spec{spec}}}, f.Decls...)
	}
	// comments are dropped: their positions no longer fit the new statement lists
	f.Comments = nil
	var buf bytes.Buffer
	if err := printer.Fprint(&buf, fset, f); err != nil {
		return nil, 0, 0, err
	}
	return buf.Bytes(), r.yields, r.locks, nil
}

// instrument writes rewritten copies of the property's files below dir and returns the
// path of the overlay file ("" if nothing could be rewritten).
func instrument(repo, prop, dir string) (overlay string, note string) {
	files := astFiles[prop]
	if len(files) == 0 {
		return "", ""
	}
	repl := map[string]string{}
	var total, locks int
	for i, rel := range files {
		src := filepath.Join(repo, rel)
		out, y, l, err := rewriteFile(src)
		if err != nil {
			note += fmt.Sprintf("%s: %v; ", rel, err)
			continue
		}
		dst := filepath.Join(dir, fmt.Sprintf("ast%d_%s", i, filepath.Base(rel)))
		if err := os.WriteFile(dst, out, 0o644); err != nil {
			note += fmt.Sprintf("%s: %v; ", rel, err)
			continue
		}
		repl[src] = dst
		total += y
		locks += l
	}
	if len(repl) == 0 {
		return "", note
	}
	b, _ := json.Marshal(map[string]interface{}{"Replace": repl})
	overlay = filepath.Join(dir, "overlay.json")
	os.WriteFile(overlay, b, 0o644)
	return overlay, note + fmt.Sprintf("%d files rewritten, %d yields, %d lock loops", len(repl), total, locks)
}
