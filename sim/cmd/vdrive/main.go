// vdrive is the check driver: builds the simulation worker from /repo's
// working tree, runs seeded batches on all cores, shrinks and re-verifies
// violations in fresh processes, matches known findings, writes evidence.
//
//	vdrive check <Cxx> <quick|thorough>
//	vdrive replay <file>
//	vdrive selftest <Cxx> [episodes]
//
// Exit 0: held on everything explored. 1: violation (VIOLATION line printed).
// 2: infrastructure trouble (build, watchdog, nondeterminism, harness panic).
package main

import (
	"encoding/json"
	"fmt"
	"os"
	"os/exec"
	"path/filepath"
	"runtime"
	"sort"
	"strconv"
	"strings"
	"sync"
	"time"

	"verifsim/props"
)

const (
	verifDir = "/verif"
	simDir   = "/verif/sim"
	repoDir  = "/repo"
	tags     = "verif stdjson gjson"
	goBin    = "go1.26.8"
)

// one worker binary per driver process, so that concurrent checks never replace each other's binary
var binPath = filepath.Join(verifDir, "bin", fmt.Sprintf("sim.%d.test", os.Getpid()))

type ViolationRec struct {
	Prop    string            `json:"property"`
	Oracle  string            `json:"oracle"`
	Msg     string            `json:"message"`
	Seed    uint64            `json:"episode_seed"`
	Index   uint64            `json:"episode_index"`
	Tape    []uint32          `json:"tape"`
	Params  map[string]string `json:"params,omitempty"`
	LogHash string            `json:"log_hash"`
	Trace   []string          `json:"trace,omitempty"`
	Tags    string            `json:"build_tags,omitempty"`
	Prefix  []uint64          `json:"prefix_episode_seeds,omitempty"`
	Shrunk  bool              `json:"shrunk,omitempty"`
	OrigLen int               `json:"orig_tape_len,omitempty"`
	// history replay (see the worker): re-run episodes HistFrom..Index-1 of the worker first
	WSeed    uint64  `json:"worker_seed,omitempty"`
	WFrom    uint64  `json:"worker_from,omitempty"`
	GCEvery  uint64  `json:"gc_every,omitempty"`
	HistFrom *uint64 `json:"history_from,omitempty"`
}

type Result struct {
	Prop       string              `json:"property"`
	WorkerSeed uint64              `json:"worker_seed"`
	From       uint64              `json:"from"`
	Episodes   int                 `json:"episodes"`
	Nontrivial int                 `json:"nontrivial"`
	Steps      int                 `json:"steps"`
	SimTimeNs  int64               `json:"sim_time_ns"`
	Faults     map[string]int      `json:"faults"`
	Probes     map[string]int      `json:"probes"`
	Sigs       []string            `json:"sigs"`
	States     []string            `json:"states"`
	Violations []ViolationRec      `json:"violations"`
	Infra      []string            `json:"infra"`
	Samples    []interface{}       `json:"samples"`
	Hashes     []string            `json:"hashes"`
	Logs       map[string][]string `json:"logs"`
	Leak       bool                `json:"leak"`
	WallS      float64             `json:"wall_s"`
}

type Meta struct {
	Rule           string   `json:"rule"`
	Real           []string `json:"real"`
	Stub           []string `json:"stub"`
	Assumptions    []string `json:"assumptions"`
	RequiredProbes []string `json:"required_probes"`
}

type KnownFinding struct {
	ID         string            `json:"id"`
	Property   string            `json:"property"`
	Oracles    []string          `json:"oracles"`
	Status     string            `json:"status"` // open | fixed
	Title      string            `json:"title"`
	Neutralize map[string]string `json:"neutralize,omitempty"` // params that remove the trigger from an input
	Witness    string            `json:"witness,omitempty"`    // replay file (relative to /verif)
	Commit     string            `json:"commit,omitempty"`
	Line       string            `json:"line,omitempty"`
}

func splitmix(seed, idx uint64) uint64 {
	z := seed + 0x9e3779b97f4a7c15*(idx+1)
	z = (z ^ (z >> 30)) * 0xbf58476d1ce4e5b9
	z = (z ^ (z >> 27)) * 0x94d049bb133111eb
	return z ^ (z >> 31)
}

func die(code int, f string, a ...interface{}) {
	fmt.Fprintf(os.Stderr, f+"\n", a...)
	os.Exit(code)
}

func goEnv() []string {
	env := os.Environ()
	env = append(env, "GOFLAGS=-mod=mod", "GOPROXY=off", "GOSUMDB=off", "GOTOOLCHAIN=local")
	return env
}

// astNote says what the source rewriting for inserted yields did for this build ("" if the property has none).
var astNote string
var astOverlay bool

func build(prop string) {
	// Development aid (seed regression in parallel): VERIF_REPO_OVERRIDE builds against a
	// scratch copy of the repository through an alternate go.mod; registered checks never set it.
	repo := repoDir
	var extra []string
	if o := os.Getenv("VERIF_REPO_OVERRIDE"); o != "" {
		repo = o
		mod, err := os.ReadFile(filepath.Join(simDir, "go.mod"))
		if err != nil {
			die(2, "INFRA: %v", err)
		}
		alt := filepath.Join(verifDir, ".scratch", fmt.Sprintf("go.%d.mod", os.Getpid()))
		os.MkdirAll(filepath.Dir(alt), 0o755)
		os.WriteFile(alt, []byte(strings.Replace(string(mod), "=> /repo", "=> "+o, 1)), 0o644)
		sum, _ := os.ReadFile(filepath.Join(o, "go.sum"))
		os.WriteFile(strings.TrimSuffix(alt, ".mod")+".sum", sum, 0o644)
		extra = []string{"-modfile=" + alt}
		defer os.Remove(alt)
		defer os.Remove(strings.TrimSuffix(alt, ".mod") + ".sum")
	}
	// go.sum is a copy of the repository's (same dependency set)
	b, err := os.ReadFile(filepath.Join(repo, "go.sum"))
	if err != nil {
		die(2, "INFRA: cannot read %s/go.sum: %v", repo, err)
	}
	os.WriteFile(filepath.Join(simDir, "go.sum"), b, 0o644)
	os.MkdirAll(filepath.Join(verifDir, "bin"), 0o755)
	run := func(overlay string) ([]byte, error) {
		args := append([]string{"test", "-c"}, extra...)
		if overlay != "" {
			args = append(args, "-overlay", overlay)
		}
		args = append(args, "-tags", tags, "-o", binPath, "./worker")
		cmd := exec.Command(goBin, args...)
		cmd.Dir = simDir
		cmd.Env = goEnv()
		return cmd.CombinedOutput()
	}
	if len(astFiles[prop]) > 0 && os.Getenv("VERIF_NO_AST") == "" {
		adir := filepath.Join(verifDir, ".scratch", fmt.Sprintf("ast-%d", os.Getpid()))
		os.MkdirAll(adir, 0o755)
		defer os.RemoveAll(adir)
		overlay, note := instrument(repo, prop, adir)
		astNote = note
		if overlay != "" {
			if out, err := run(overlay); err == nil {
				astOverlay = true
				os.Setenv("VSIM_AST", "1") // inherited by the workers: scenarios may park tasks inside rewritten critical sections
				return
			} else {
				astNote += "; the build of the rewritten files failed, plain build used: " + tail(string(out), 300)
			}
		}
	}
	out, err := run("")
	if err != nil {
		fmt.Fprintf(os.Stderr, "%s\n", out)
		die(2, "INFRA: build of the simulation worker against %s failed: %v", repo, err)
	}
}

func scratch() string {
	d := filepath.Join(verifDir, ".scratch", fmt.Sprintf("%d", os.Getpid()))
	os.MkdirAll(d, 0o755)
	return d
}

func runWorker(env map[string]string, timeout time.Duration) (exit int, stderr string) {
	cmd := exec.Command(binPath, "-test.run", "^TestSim$", "-test.timeout", "0")
	cmd.Env = os.Environ()
	for k, v := range env {
		cmd.Env = append(cmd.Env, k+"="+v)
	}
	var sb strings.Builder
	cmd.Stderr = &sb
	cmd.Stdout = &sb
	if err := cmd.Start(); err != nil {
		return 2, err.Error()
	}
	done := make(chan error, 1)
	go func() { done <- cmd.Wait() }()
	select {
	case err := <-done:
		if err != nil {
			if ee, ok := err.(*exec.ExitError); ok {
				return ee.ExitCode(), sb.String()
			}
			return 2, err.Error()
		}
		return 0, sb.String()
	case <-time.After(timeout):
		cmd.Process.Kill()
		<-done
		return -9, sb.String() + "\nWATCHDOG: worker killed after " + timeout.String()
	}
}

func readJSON(path string, v interface{}) error {
	b, err := os.ReadFile(path)
	if err != nil {
		return err
	}
	return json.Unmarshal(b, v)
}

func writeJSON(path string, v interface{}) {
	b, _ := json.MarshalIndent(v, "", " ")
	os.WriteFile(path, b, 0o644)
}

// replayOnce runs a violation record in a fresh process.
func replayOnce(dir string, v *ViolationRec, tag string) (*ViolationRec, error) {
	in := filepath.Join(dir, "replay-in-"+tag+".json")
	out := filepath.Join(dir, "replay-out-"+tag+".json")
	writeJSON(in, v)
	os.Remove(out)
	os.Remove(out + ".stuck")
	code, se := runWorker(map[string]string{"VSIM_MODE": "replay", "VSIM_IN": in, "VSIM_OUT": out, "VSIM_STUCK": out + ".stuck"}, 5*time.Minute)
	var r ViolationRec
	if err := readJSON(out, &r); err != nil {
		if code != 0 {
			// the process died: a panic on a goroutine nobody can recover
			r = *v
			r.Oracle = v.Prop + ".crash"
			r.Msg = crashLine(se)
			r.LogHash = "crash"
			if b, e := os.ReadFile(out + ".stuck"); e == nil {
				r.Oracle, r.Msg = v.Prop+".blocked-on-lock:"+string(b), stuckMsg(string(b))
			}
			return &r, nil
		}
		return nil, fmt.Errorf("replay produced no result (exit %d): %s", code, tail(se, 20))
	}
	return &r, nil
}

func stuckMsg(site string) string {
	return "a goroutine is blocked acquiring a lock in " + site + " while the lock's holder waits for simulated time or I/O: the call hangs for as long as the holder takes (the simulation made no step for 20 s of real time)"
}

func crashLine(se string) string {
	lines := strings.Split(se, "\n")
	msg := ""
	for i, l := range lines {
		if strings.HasPrefix(l, "panic:") || strings.HasPrefix(l, "fatal error:") {
			msg = l
			for _, l2 := range lines[i+1:] {
				if strings.HasPrefix(l2, "github.com/cloudwego/hertz") || strings.HasPrefix(l2, "verifsim/") {
					msg += " at " + strings.SplitN(l2, "(", 2)[0]
					break
				}
			}
			break
		}
	}
	if msg == "" {
		msg = "process died: " + tail(se, 3)
	}
	return msg
}

func tail(s string, n int) string {
	l := strings.Split(strings.TrimSpace(s), "\n")
	if len(l) > n {
		l = l[len(l)-n:]
	}
	return strings.Join(l, " | ")
}

func loadMeta(prop string) Meta {
	m, ok := props.Metas[prop]
	if !ok {
		die(2, "unknown property %s", prop)
	}
	return Meta{Rule: m.Rule, Real: m.Real, Stub: m.Stub, Assumptions: m.Assumptions, RequiredProbes: m.RequiredProbes}
}

func loadKnown() []KnownFinding {
	var k struct {
		Findings []KnownFinding `json:"findings"`
	}
	readJSON(filepath.Join(verifDir, "known_findings.json"), &k)
	return k.Findings
}

type tierCfg struct {
	budget  time.Duration
	workers int
}

func main() {
	if len(os.Args) < 2 {
		die(2, "usage: vdrive check|replay|selftest ...")
	}
	switch os.Args[1] {
	case "check":
		if len(os.Args) < 4 {
			die(2, "usage: vdrive check <Cxx> <quick|thorough>")
		}
		rc := check(os.Args[2], os.Args[3])
		os.Remove(binPath)
		os.Exit(rc)
	case "build": // development aid: build the worker for a property (rewritten files included) and keep it
		build(os.Args[2])
		fmt.Println(binPath, astNote)
	case "replay":
		if len(os.Args) < 3 {
			die(2, "usage: vdrive replay <file>")
		}
		rc := replayCmd(os.Args[2])
		os.Remove(binPath)
		os.Exit(rc)
	case "selftest":
		if len(os.Args) < 3 {
			die(2, "usage: vdrive selftest <Cxx> [episodes]")
		}
		n := 40
		if len(os.Args) > 3 {
			n, _ = strconv.Atoi(os.Args[3])
		}
		build(os.Args[2])
		dir := scratch()
		defer os.RemoveAll(dir)
		seed := envSeed(20260101)
		if msg := selftest(dir, os.Args[2], seed, n, 2); msg != "" {
			os.Remove(binPath)
			fmt.Println("NONDETERMINISM:", msg)
			os.Exit(2)
		}
		os.Remove(binPath)
		if astPoolSensitive[os.Args[2]] {
			fmt.Printf("selftest %s: %d episodes x 8 processes identical within each group (GOMAXPROCS 1 with inserted yields x 4; GOMAXPROCS 4/16 without them x 4)\n", os.Args[2], n)
		} else {
			fmt.Printf("selftest %s: %d episodes x 6 processes (GOMAXPROCS 1/4/16) identical\n", os.Args[2], n)
		}
	default:
		die(2, "unknown command")
	}
}

func envSeed(def uint64) uint64 {
	if v := os.Getenv("VERIF_SEED"); v != "" {
		if n, err := strconv.ParseInt(v, 10, 64); err == nil {
			return uint64(n)
		}
		if n, err := strconv.ParseUint(v, 10, 64); err == nil {
			return n
		}
	}
	return def
}

// selftest runs the same episodes in several fresh processes at GOMAXPROCS 1/4/16
// and diffs the full event logs. Returns "" if identical.
func selftest(dir, prop string, seed uint64, episodes, reps int) string {
	type run struct {
		procs int
		res   Result
	}
	var runs []*run
	var mu sync.Mutex
	var wg sync.WaitGroup
	var fail string
	k := 0
	for r := 0; r < reps; r++ {
		ps := []int{1, 4, 16}
		if astPoolSensitive[prop] {
			ps = []int{1, 1, 4, 16} // two runs of the configuration the checks use
		}
		for _, p := range ps {
			k++
			out := filepath.Join(dir, fmt.Sprintf("st-%d.json", k))
			p := p
			wg.Add(1)
			go func() {
				defer wg.Done()
				env := map[string]string{"VSIM_MODE": "explore", "VSIM_PROP": prop, "VSIM_SEED": fmt.Sprint(seed), "VSIM_COUNT": fmt.Sprint(episodes),
					"VSIM_OUT": out, "VSIM_GC_EVERY": fmt.Sprint(gcEvery(prop)), "VSIM_HASHES": "1", "VSIM_LOGS": "1", "VSIM_PROCS": fmt.Sprint(p), "VSIM_MAXVIOL": "1000"}
				if p > 1 && astPoolSensitive[prop] {
					// with statement-level yields the number of scheduling points depends on sync.Pool hits, which depend on the
					// number of Ps; the checks run their workers on one P. More than one P: the simulation without those yields.
					env["VSIM_AST_OFF"] = "1"
				}
				code, se := runWorker(env, 10*time.Minute)
				ru := &run{procs: p}
				if err := readJSON(out, &ru.res); err != nil {
					mu.Lock()
					fail = fmt.Sprintf("selftest worker failed (exit %d): %s", code, tail(se, 10))
					mu.Unlock()
					return
				}
				mu.Lock()
				runs = append(runs, ru)
				mu.Unlock()
			}()
		}
	}
	wg.Wait()
	if fail != "" {
		return fail
	}
	for _, r := range runs {
		base := r
		for _, b := range runs {
			if (b.procs > 1) == (r.procs > 1) || !astPoolSensitive[prop] {
				base = b // first run of the same group (all runs form one group unless inserted yields are pool-sensitive)
				break
			}
		}
		if base == r {
			continue
		}
		if len(r.res.Hashes) != len(base.res.Hashes) {
			return fmt.Sprintf("different number of episodes: %d vs %d", len(r.res.Hashes), len(base.res.Hashes))
		}
		for i := range base.res.Hashes {
			if base.res.Hashes[i] != r.res.Hashes[i] {
				idx := strings.SplitN(base.res.Hashes[i], ":", 2)[0]
				la, lb := base.res.Logs[idx], r.res.Logs[idx]
				j := 0
				for j < len(la) && j < len(lb) && la[j] == lb[j] {
					j++
				}
				a, b := "<end>", "<end>"
				if j < len(la) {
					a = la[j]
				}
				if j < len(lb) {
					b = lb[j]
				}
				return fmt.Sprintf("episode %s diverges between GOMAXPROCS=%d and %d at log line %d: %q vs %q", idx, base.procs, r.procs, j, a, b)
			}
		}
	}
	return ""
}

func check(prop, tier string) int {
	t0 := time.Now()
	build(prop)
	dir := scratch()
	defer os.RemoveAll(dir)
	meta := loadMeta(prop)

	budget := 35 * time.Second
	if tier == "thorough" {
		budget = 10 * time.Minute
	}
	if v := os.Getenv("VERIF_BUDGET_S"); v != "" {
		if n, err := strconv.Atoi(v); err == nil {
			budget = time.Duration(n) * time.Second
		}
	}
	defSeed := uint64(1)
	if tier == "thorough" {
		defSeed = 1000003
	}
	seed := envSeed(defSeed)
	fmt.Printf("VERIF_SEED=%d property=%s tier=%s budget=%s\n", seed, prop, tier, budget)
	if astNote != "" {
		fmt.Printf("inserted yields: %s (overlay build used: %v)\n", astNote, astOverlay)
	}

	if tier == "thorough" {
		if msg := selftest(dir, prop, splitmix(seed, 999), 40, 1); msg != "" {
			fmt.Println("INFRA: nondeterminism detected:", msg)
			return 2
		}
	}

	nw := runtime.NumCPU()
	if nw > 16 {
		nw = 16
	}
	if v := os.Getenv("VERIF_WORKERS"); v != "" {
		if n, err := strconv.Atoi(v); err == nil && n > 0 {
			nw = n
		}
	}
	deadline := time.Now().Add(budget)
	var mu sync.Mutex
	var results []Result
	var infra []string
	var crashes []ViolationRec
	var wg sync.WaitGroup
	for w := 0; w < nw; w++ {
		w := w
		wg.Add(1)
		go func() {
			defer wg.Done()
			wseed := splitmix(seed, uint64(w))
			from := uint64(0)
			for round := 0; ; round++ {
				left := time.Until(deadline)
				if left < 500*time.Millisecond {
					return
				}
				out := filepath.Join(dir, fmt.Sprintf("w%d-%d.json", w, round))
				cur := filepath.Join(dir, fmt.Sprintf("w%d.cur", w))
				code, se := runWorker(map[string]string{"VSIM_MODE": "explore", "VSIM_PROP": prop, "VSIM_SEED": fmt.Sprint(wseed), "VSIM_FROM": fmt.Sprint(from),
					"VSIM_PARAMS": fmt.Sprintf(`{"tier":%q}`, tier), "VSIM_GC_EVERY": fmt.Sprint(gcEvery(prop)), "VSIM_COUNT": "1000000000", "VSIM_BUDGET_MS": fmt.Sprint(left.Milliseconds()), "VSIM_OUT": out, "VSIM_CUR": cur, "VSIM_STUCK": cur + ".stuck"}, left+3*time.Minute)
				var r Result
				if err := readJSON(out, &r); err != nil {
					// worker died mid-episode
					var c ViolationRec
					if code == -9 {
						mu.Lock()
						infra = append(infra, "watchdog: "+tail(se, 3))
						mu.Unlock()
						return
					}
					if err2 := readJSON(cur, &c); err2 == nil {
						c.Oracle = prop + ".crash"
						c.Msg = crashLine(se)
						if b, e := os.ReadFile(cur + ".stuck"); e == nil {
							os.Remove(cur + ".stuck")
							c.Oracle, c.Msg = prop+".blocked-on-lock:"+string(b), stuckMsg(string(b))
						}
						c.WSeed, c.WFrom, c.GCEvery = wseed, from, uint64(gcEvery(prop))
						c.Params = map[string]string{"tier": tier}
						mu.Lock()
						crashes = append(crashes, c)
						mu.Unlock()
						from = c.Index + 1
						continue
					}
					mu.Lock()
					infra = append(infra, fmt.Sprintf("worker %d failed (exit %d): %s", w, code, tail(se, 8)))
					mu.Unlock()
					return
				}
				mu.Lock()
				results = append(results, r)
				mu.Unlock()
				if !r.Leak {
					return
				}
				from = r.From + uint64(r.Episodes)
			}
		}()
	}
	wg.Wait()

	// merge
	tot := Result{Faults: map[string]int{}, Probes: map[string]int{}}
	sigs := map[string]bool{}
	states := map[string]bool{}
	var viols []ViolationRec
	for _, r := range results {
		tot.Episodes += r.Episodes
		tot.Nontrivial += r.Nontrivial
		tot.Steps += r.Steps
		tot.SimTimeNs += r.SimTimeNs
		for k, v := range r.Faults {
			tot.Faults[k] += v
		}
		for k, v := range r.Probes {
			tot.Probes[k] += v
		}
		for _, s := range r.Sigs {
			sigs[s] = true
		}
		for _, s := range r.States {
			states[s] = true
		}
		viols = append(viols, r.Violations...)
		for _, s := range r.Infra {
			if !strings.Contains(s, "worker recycled") {
				infra = append(infra, s)
			}
		}
		if len(tot.Samples) < 3 {
			tot.Samples = append(tot.Samples, r.Samples...)
		}
	}
	viols = append(viols, crashes...)
	if len(tot.Samples) > 3 {
		tot.Samples = tot.Samples[:3]
	}

	exit := 0
	if len(infra) > 0 {
		for _, s := range infra {
			fmt.Println("INFRA:", s)
		}
		exit = 2
	}

	// triage violations: one representative per oracle id (shortest tape first)
	sort.SliceStable(viols, func(i, j int) bool { return len(viols[i].Tape) < len(viols[j].Tape) })
	known := loadKnown()
	reportedKnown := map[string]bool{}
	perOracle := map[string]int{}
	nviol := 0
	os.MkdirAll(filepath.Join(verifDir, "replays"), 0o755)
	for i := range viols {
		v := &viols[i]
		if perOracle[v.Oracle] >= 2 {
			continue
		}
		perOracle[v.Oracle]++
		v.Tags = tags
		conf, msg := confirm(dir, v, fmt.Sprintf("v%d", i))
		if conf == nil {
			fmt.Printf("INFRA: violation did not replay deterministically (worker seed %d from %d episode %d): %s %s -- %s\n", v.WSeed, v.WFrom, v.Index, v.Oracle, v.Msg, msg)
			exit = 2
			continue
		}
		// known finding?
		if kf := matchKnown(dir, known, conf, fmt.Sprintf("k%d", i)); kf != nil {
			if !reportedKnown[kf.ID] {
				reportedKnown[kf.ID] = true
				fmt.Printf("KNOWN-FINDING: property=%s %s (%s)\n", prop, kf.Title, kf.ID)
			}
			continue
		}
		path := filepath.Join(verifDir, "replays", fmt.Sprintf("%s-%s.json", prop, shortHash(conf)))
		writeJSON(path, conf)
		fmt.Printf("VIOLATION property=%s replay=%s\n", prop, path)
		fmt.Printf("  oracle=%s: %s\n", conf.Oracle, conf.Msg)
		nviol++
	}
	if nviol > 0 && (exit == 0 || episodeInfraOnly(infra)) {
		// a confirmed violation (replayed identically in two fresh processes) stands even if other
		// episodes of the same run ended in a step cap or a harness panic; those are still printed above
		exit = 1
	}

	// witnesses of known findings: open must still fail, fixed must pass
	for _, kf := range known {
		if kf.Property != prop || kf.Witness == "" {
			continue
		}
		var w ViolationRec
		if err := readJSON(filepath.Join(verifDir, kf.Witness), &w); err != nil {
			fmt.Println("INFRA: cannot read witness", kf.Witness, err)
			exit = 2
			continue
		}
		w.Trace = nil
		r, err := replayOnce(dir, &w, "wit-"+kf.ID)
		if err != nil {
			fmt.Println("INFRA: witness replay failed:", kf.ID, err)
			exit = 2
			continue
		}
		tot.Episodes++
		switch kf.Status {
		case "open":
			if r.Oracle == "" {
				fmt.Printf("INFRA: known finding %s is stale: its witness no longer fails; update known_findings.json\n", kf.ID)
				exit = 2
			} else if !reportedKnown[kf.ID] {
				reportedKnown[kf.ID] = true
				fmt.Printf("KNOWN-FINDING: property=%s %s (%s)\n", prop, kf.Title, kf.ID)
			}
		case "fixed":
			if r.Oracle != "" && r.Oracle != "INFRA" {
				path := filepath.Join(verifDir, "replays", fmt.Sprintf("%s-regress-%s.json", prop, kf.ID))
				writeJSON(path, r)
				fmt.Printf("VIOLATION property=%s replay=%s\n", prop, path)
				fmt.Printf("  regression of fixed finding %s: oracle=%s: %s\n", kf.ID, r.Oracle, r.Msg)
				nviol++
				if exit == 0 {
					exit = 1
				}
			}
		}
	}

	// required probes (thorough): a blind workload must not pass silently
	if tier == "thorough" && exit == 0 {
		for _, p := range meta.RequiredProbes {
			if tot.Probes[p] == 0 && tot.Faults[p] == 0 {
				fmt.Printf("INFRA: probe %q stayed at zero in a thorough run\n", p)
				exit = 2
			}
		}
	}

	// one real episode written out as a trace (schedule + faults), for the reader of the evidence
	{
		out := filepath.Join(dir, "sample-trace.json")
		runWorker(map[string]string{"VSIM_MODE": "explore", "VSIM_PROP": prop, "VSIM_SEED": fmt.Sprint(splitmix(seed, 0)), "VSIM_FROM": "3", "VSIM_COUNT": "1",
			"VSIM_PARAMS": fmt.Sprintf(`{"tier":%q}`, tier), "VSIM_OUT": out, "VSIM_LOGS": "1"}, 2*time.Minute)
		var r Result
		if readJSON(out, &r) == nil {
			for idx, lg := range r.Logs {
				if len(lg) > 60 {
					lg = append(lg[:60:60], fmt.Sprintf("... (%d more lines)", len(lg)-60))
				}
				tot.Samples = append(tot.Samples, map[string]interface{}{"episode_index": idx, "trace": lg})
			}
		}
	}
	wall := time.Since(t0).Seconds()
	stateList := make([]string, 0, len(states))
	for s := range states {
		stateList = append(stateList, s)
	}
	sort.Strings(stateList)
	if len(stateList) > 40 {
		stateList = stateList[:40]
	}
	ev := map[string]interface{}{
		"property_id": prop,
		"tier":        tier,
		"seed":        int64(seed & 0x7fffffffffffffff),
		"level":       "exploration",
		"coverage": map[string]interface{}{
			"evaluations":                    tot.Episodes,
			"distinct_nontrivial":            len(sigs),
			"nontrivial_episodes":            tot.Nontrivial,
			"rule":                           meta.Rule,
			"samples":                        tot.Samples,
			"exhaustive":                     false,
			"scheduler_steps":                tot.Steps,
			"sim_time_s":                     float64(tot.SimTimeNs) / 1e9,
			"episodes_per_hour":              float64(tot.Episodes) / wall * 3600,
			"faults_fired":                   tot.Faults,
			"probes":                         tot.Probes,
			"distinct_abstract_states":       len(states),
			"abstract_states_sample":         stateList,
			"distinct_interleavings_measure": "distinct hashes of the abstracted event sequence (event kind, site, fault kind, bucketed sizes) over non-trivial episodes",
			"components":                     map[string]interface{}{"real": meta.Real, "stub": meta.Stub},
			"workers":                        nw,
			"known_findings_seen":            keys(reportedKnown),
			"inserted_yields":                astNote,
			"inserted_yields_build":          astOverlay,
		},
		"assumptions": meta.Assumptions,
		"wall_s":      wall,
		"violations":  nviol,
	}
	if ev["assumptions"] == nil {
		ev["assumptions"] = []string{}
	}
	evDir := filepath.Join(verifDir, "evidence")
	if os.Getenv("VERIF_REPO_OVERRIDE") != "" {
		evDir = filepath.Join(verifDir, ".scratch", "evidence-override") // not a run against /repo: no evidence
	}
	os.MkdirAll(evDir, 0o755)
	writeJSON(filepath.Join(evDir, prop+".json"), ev)
	fmt.Printf("%s %s: %d episodes (%d non-trivial, %d distinct signatures), %d steps, %.0fs simulated, %d violations, exit %d, %.1fs\n",
		prop, tier, tot.Episodes, tot.Nontrivial, len(sigs), tot.Steps, float64(tot.SimTimeNs)/1e9, nviol, exit, wall)
	return exit
}

// episodeInfraOnly: every infrastructure note concerns a single episode (step cap, harness panic),
// none the run as a whole (watchdog, worker failure, nondeterminism).
func episodeInfraOnly(infra []string) bool {
	for _, s := range infra {
		if !strings.HasPrefix(s, "episode ") {
			return false
		}
	}
	return true
}

// gcEvery: how many episodes run between forced GCs (which empty sync.Pools).
// Pool contents are the subject of C09 and matter to C13's buffer recycling: there every episode starts from empty pools.
func gcEvery(prop string) int {
	switch prop {
	case "C09", "C13":
		return 1
	}
	return 8
}

func keys(m map[string]bool) []string {
	out := []string{}
	for k := range m {
		out = append(out, k)
	}
	sort.Strings(out)
	return out
}

func shortHash(v *ViolationRec) string {
	h := uint64(1469598103934665603)
	add := func(s string) {
		for i := 0; i < len(s); i++ {
			h ^= uint64(s[i])
			h *= 1099511628211
		}
	}
	add(v.Oracle)
	for _, t := range v.Tape {
		add(strconv.Itoa(int(t)) + ",")
	}
	name := strings.TrimPrefix(v.Oracle, v.Prop+".")
	name = strings.Map(func(r rune) rune {
		if r >= 'a' && r <= 'z' || r >= 'A' && r <= 'Z' || r >= '0' && r <= '9' || r == '-' || r == '.' {
			return r
		}
		return '_'
	}, name)
	return fmt.Sprintf("%s-%08x", name, uint32(h))
}

// confirm shrinks a violation and verifies that it replays identically in two
// fresh processes. Returns the confirmed record (with trace) or nil.
func confirm(dir string, v *ViolationRec, tag string) (*ViolationRec, string) {
	// most violations do not depend on what earlier episodes left in object pools:
	// try the single episode first, keep the prefix only if it is needed
	if len(v.Prefix) > 0 {
		solo := *v
		solo.Prefix = nil
		if r, err := replayOnce(dir, &solo, tag+"solo"); err == nil && r.Oracle == v.Oracle {
			v = &solo
		}
	}
	cand := *v
	if !strings.HasSuffix(v.Oracle, ".crash") && !strings.Contains(v.Oracle, ".blocked-on-lock:") && len(v.Tape) > 0 {
		in := filepath.Join(dir, "shrink-in-"+tag+".json")
		out := filepath.Join(dir, "shrink-out-"+tag+".json")
		writeJSON(in, v)
		runs := "400"
		if s := os.Getenv("VERIF_SHRINK_RUNS"); s != "" {
			runs = s
		}
		runWorker(map[string]string{"VSIM_MODE": "shrink", "VSIM_IN": in, "VSIM_OUT": out, "VSIM_SHRINK_RUNS": runs}, 10*time.Minute)
		var s ViolationRec
		if err := readJSON(out, &s); err == nil && s.Shrunk {
			cand = s
		}
	}
	try := func(c *ViolationRec) (*ViolationRec, string) {
		r1, err := replayOnce(dir, c, tag+"a")
		if err != nil {
			return nil, err.Error()
		}
		r2, err := replayOnce(dir, c, tag+"b")
		if err != nil {
			return nil, err.Error()
		}
		if r1.Oracle != c.Oracle {
			return nil, fmt.Sprintf("fresh-process replay gave oracle %q (%s) instead of %q", r1.Oracle, r1.Msg, c.Oracle)
		}
		if r1.Oracle != r2.Oracle || r1.LogHash != r2.LogHash || r1.Msg != r2.Msg {
			return nil, fmt.Sprintf("two fresh-process replays differ: %s/%s vs %s/%s", r1.Oracle, r1.LogHash, r2.Oracle, r2.LogHash)
		}
		r1.Shrunk, r1.OrigLen, r1.Tags, r1.Prefix = c.Shrunk, c.OrigLen, tags, c.Prefix
		return r1, ""
	}
	if r, _ := try(&cand); r != nil {
		return r, ""
	}
	// shrunk tape does not reproduce in a fresh process: fall back to the original
	orig := *v
	r, msg := try(&orig)
	if r != nil || v.WSeed == 0 {
		return r, msg
	}
	// the episode alone (or with its GC window) does not fail: it depends on what earlier
	// episodes of its worker process left in object pools. Re-run a growing suffix of that
	// worker's history (always starting at a forced GC) in front of it.
	ge := v.GCEvery
	if ge == 0 {
		ge = 1
	}
	aligned := v.WFrom + (v.Index-v.WFrom)/ge*ge
	for k := uint64(1); ; k *= 2 {
		start := v.WFrom
		if aligned-v.WFrom > k*ge {
			start = aligned - k*ge
		}
		h := *v
		h.Prefix = nil
		h.HistFrom = &start
		if x, _ := replayOnce(dir, &h, tag+"h"); x != nil && x.Oracle == v.Oracle {
			if r, m := try(&h); r != nil {
				r.HistFrom, r.WSeed, r.WFrom, r.GCEvery = h.HistFrom, h.WSeed, h.WFrom, h.GCEvery
				return r, ""
			} else {
				msg = m
			}
		}
		if start == v.WFrom {
			break
		}
	}
	return nil, msg
}

// matchKnown: same property and oracle, and neutralising the recorded trigger
// in this very input makes the violation disappear.
func matchKnown(dir string, known []KnownFinding, v *ViolationRec, tag string) *KnownFinding {
	for i := range known {
		kf := &known[i]
		if kf.Status != "open" || kf.Property != v.Prop || len(kf.Neutralize) == 0 {
			continue
		}
		ok := false
		for _, o := range kf.Oracles {
			if o == v.Oracle {
				ok = true
			}
		}
		if !ok {
			continue
		}
		n := *v
		n.Trace = nil
		n.Params = map[string]string{}
		for k, x := range v.Params {
			n.Params[k] = x
		}
		for k, x := range kf.Neutralize {
			n.Params[k] = x
		}
		r, err := replayOnce(dir, &n, tag+"-"+kf.ID)
		if err != nil {
			continue
		}
		if r.Oracle == "" {
			return kf
		}
	}
	return nil
}

func replayCmd(path string) int {
	var v ViolationRec
	if err := readJSON(path, &v); err != nil {
		die(2, "cannot read %s: %v", path, err)
	}
	build(v.Prop)
	dir := scratch()
	defer os.RemoveAll(dir)
	want := v
	v.Trace = nil
	r, err := replayOnce(dir, &v, "cmd")
	if err != nil {
		die(2, "INFRA: %v", err)
	}
	for _, l := range r.Trace {
		fmt.Println(l)
	}
	fmt.Printf("replay: oracle=%q message=%q log_hash=%s\n", r.Oracle, r.Msg, r.LogHash)
	if r.Oracle == "" {
		fmt.Println("replay: no violation")
		return 0
	}
	if want.Oracle != "" && (r.Oracle != want.Oracle || (want.LogHash != "" && r.LogHash != want.LogHash)) {
		fmt.Printf("replay: DIFFERS from the recorded run (recorded oracle=%q log_hash=%s)\n", want.Oracle, want.LogHash)
		return 2
	}
	fmt.Printf("VIOLATION property=%s replay=%s\n", r.Prop, path)
	return 1
}
