#!/bin/bash
# Runs the repository's test suite with the verif guard OFF (no tags), default toolchain,
# the way BASELINE.json does, and prints go test -json output.
export GOFLAGS=-mod=mod GOPROXY=off GOSUMDB=off
rc=0
for m in . cmd/hz; do
  (cd /repo/$m && go test -json -vet=off -count=1 -timeout 25m ./...) || rc=$?
done
exit $rc
