#!/bin/bash
# usage: seed3test.sh Cxx [Cyy...] : test /tmp/seed3-Cxx/patch{1,2,3}.diff against ./check Cxx quick using a scratch copy of /repo
cd /verif
for prop in "$@"; do
 WT=/tmp/wt-s3-$prop-$$
 git -C /repo worktree add -q --detach $WT HEAD || exit 2
 for i in 1 2 3; do
  P=/tmp/seed${WAVE:-3}-$prop/patch$i.diff; [ -f $P ] || continue
  (cd $WT && git checkout -q -- . && git apply $P) || { echo "$prop/$i: PATCH DOES NOT APPLY"; continue; }
  out=$(VERIF_REPO_OVERRIDE=$WT VERIF_BUDGET_S=${VERIF_BUDGET_S:-25} timeout 1200 ./check $prop quick 2>&1); rc=$?
  echo "$prop/$i: exit $rc $(echo "$out" | grep -m1 'oracle=' | cut -c1-220)"
 done
 git -C /repo worktree remove --force $WT
done
