#!/bin/bash
# Run once after a fresh restore, offline: builds the driver and the simulation worker from files on disk.
set -e
cd "$(dirname "$0")"
export GOFLAGS=-mod=mod GOPROXY=off GOSUMDB=off GOTOOLCHAIN=local
export PATH=$PATH:/opt/veriftools/go1.26.8/bin
mkdir -p bin .scratch evidence replays
cp /repo/go.sum sim/go.sum
(cd sim && go1.26.8 build -tags "verif stdjson gjson" -o ../bin/vdrive ./cmd/vdrive)
(cd sim && go1.26.8 test -c -tags "verif stdjson gjson" -o ../bin/sim.test ./worker)
echo "setup ok"
