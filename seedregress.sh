#!/bin/bash
# Regression of all seeded changes against the current checks, without touching /repo:
# each seed is applied to a scratch copy of /repo HEAD and the check is built against that copy.
# usage: seedregress.sh [seed dirs...]   (default: all of /verif/seeded/*)
cd /verif
SEEDS=${@:-$(ls -d seeded/*/)}
WT=/tmp/wt-seedregress-$$
git -C /repo worktree add -q --detach $WT HEAD || exit 2
for d in $SEEDS; do
  d=${d%/}; id=$(basename $d); prop=${id%-*}
  (cd $WT && git checkout -q -- . && git apply /verif/$d/patch.diff) || { echo "$id: PATCH DOES NOT APPLY"; continue; }
  out=$(VERIF_REPO_OVERRIDE=$WT VERIF_BUDGET_S=${VERIF_BUDGET_S:-25} timeout 1200 ./check $prop quick 2>&1); rc=$?
  echo "$id: exit $rc $(echo "$out" | grep -m1 'oracle=' | cut -c1-160)"
done
git -C /repo worktree remove --force $WT
