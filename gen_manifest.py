#!/usr/bin/env python3
"""Regenerates MANIFEST.json from the table below (kept in one place so it stays valid)."""
import json, subprocess

CLAIMED = {
 # id: (technique, level text, level note, design ref)
}
NA = {
 "C05": "pure function of API arguments to serialised bytes: no schedule, clock, I/O, fault or second party for a simulator to control (DESIGN.md section 4)",
 "C06": "pure function of (route set, registration order, path): registration order is an input permutation, not a schedule (DESIGN.md section 4)",
 "C07": "pure byte-string function of the request target; the property's own method is exhaustive enumeration (DESIGN.md section 4)",
 "C12": "handler-chain interpreter on one goroutine: a finite program space to enumerate, no nondeterminism to control (DESIGN.md section 4)",
 "C16": "code generator run once on an IDL: translation validation, no runtime behaviour of hertz (DESIGN.md section 4)",
 "C17": "pure encode/decode round trips (DESIGN.md section 4)",
 "C20": "pure expression evaluation against an independent evaluator (DESIGN.md section 4)",
}
import os, sys
sys.path.insert(0, os.path.dirname(__file__))
from manifest_table import CLAIMED, PENDING

props = [json.loads(l)["id"] for l in open("/verif/properties.jsonl")]
checks = []
for pid in props:
    if pid in CLAIMED:
        c = CLAIMED[pid]
        checks.append({
            "property_id": pid,
            "quick_cmd": f"./check {pid} quick",
            "thorough_cmd": f"./check {pid} thorough",
            "evidence_file": f"/verif/evidence/{pid}.json",
            "replay_cmd_template": "./check replay {path}",
            "engine": c["engine"],
            "level_claimed": {"category": "exploration", "text": c["text"], "design_ref": c["ref"]},
            "level_note": c["note"],
            "technique": c["technique"],
        })
na = [{"property_id": k, "reason": v} for k, v in NA.items()]
for k, v in PENDING.items():
    if k not in CLAIMED:
        na.append({"property_id": k, "reason": v})
na.sort(key=lambda x: x["property_id"])
hooks = subprocess.run(["git", "-C", "/repo", "log", "--format=%h %s"], capture_output=True, text=True).stdout.splitlines()
hook_commits = [l.split()[0] for l in hooks if l.split(" ", 1)[1].startswith("verif hook")]
fix_commits = [l for l in hooks if l.split(" ", 1)[1].startswith("fix:")]
m = {
 "version": 1,
 "setup_cmd": "./setup.sh",
 "hooks": {
  "guard": "verif (Go build tag)",
  "enable": "go1.26.8 test -c -tags 'verif stdjson gjson' (GOTOOLCHAIN=local GOFLAGS=-mod=mod GOPROXY=off); stdjson/gjson are the repository's own tags that replace sonic, which does not compile on Go 1.26",
  "baseline_off_cmd": "./baseline_off.sh",
  "source_commits": hook_commits,
  "add_only": False,
 },
 "engines": [
  {"name": "wire-sim", "path": "sim/", "serves_properties": [p for p in props if p in CLAIMED and CLAIMED[p]["engine"] == "wire-sim"], "kind_free_text": "deterministic simulation: one real hertz goroutine per simulated connection on the real standard.Conn over a SimConn, scripted peer state machines, seeded baton scheduler deciding deliveries/fragmentation/faults, synctest fake clock"},
  {"name": "conc-sim", "path": "sim/", "serves_properties": [p for p in props if p in CLAIMED and CLAIMED[p]["engine"] == "conc-sim"], "kind_free_text": "deterministic simulation: several real hertz goroutines serialised by the baton scheduler at yield hooks and simulated-network park points, fault injection, synctest fake clock"},
 ],
 "checks": checks,
 "not_applicable": na,
 "notes": "hooks.add_only is false because of exactly one line: hook H3 turns `if t.listenConfig != nil {` in standard.transport.serve into `if ln, lerr, ok := verifListen(...); ok {...} else if t.listenConfig != nil {` (verifListen returns ok=false without the verif tag); every other hook line is an addition. " + str(len(fix_commits)) + " unguarded fix: commits repair genuine defects (known_findings.json). One technique for all claimed checks: deterministic simulation with fault injection (seeded search over schedules and fault sequences, replay files, shrinking). See DESIGN.md. known_findings.json lists genuine defects (fixed ones are replayed as regression witnesses).",
}
json.dump(m, open("/verif/MANIFEST.json", "w"), indent=1)
print("claimed:", [c["property_id"] for c in checks])
