#!/bin/bash
# usage: seed3one.sh Cxx i [budget] : one wave-3 patch against ./check Cxx quick (scratch copy of /repo), full tail
cd /verif
prop=$1; i=$2
WT=/tmp/wt-s1-$prop-$i-$$
git -C /repo worktree add -q --detach $WT HEAD || exit 2
(cd $WT && git apply ${PATCHDIR:-/tmp/seed${WAVE:-3}-$prop}/patch$i.diff) || { echo "PATCH DOES NOT APPLY"; }
VERIF_REPO_OVERRIDE=$WT VERIF_BUDGET_S=${3:-25} timeout 1500 ./check $prop quick 2>&1 | tail -${TAIL:-6} | cut -c1-${CUT:-400}
git -C /repo worktree remove --force $WT
