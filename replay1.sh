#!/bin/bash
# dev helper: replay1.sh PROP WORKERSEED INDEX  -> prints trace
export GOFLAGS=-mod=mod GOPROXY=off GOSUMDB=off GOTOOLCHAIN=local
SEED=$(python3 -c "
M=(1<<64)-1
def sm(seed,idx):
    z=(seed+0x9e3779b97f4a7c15*(idx+1))&M
    z=((z^(z>>30))*0xbf58476d1ce4e5b9)&M
    z=((z^(z>>27))*0x94d049bb133111eb)&M
    return z^(z>>31)
print(sm($2,$3))")
echo "{\"property\":\"$1\",\"episode_seed\":$SEED}" > /verif/.scratch/in.json
cd /verif/.scratch && VSIM_MODE=replay VSIM_IN=/verif/.scratch/in.json VSIM_OUT=/verif/.scratch/out.json /verif/bin/sim.dev.test -test.run '^TestSim$' -test.timeout 0
python3 -c "
import json
r=json.load(open('/verif/.scratch/out.json'))
print(r.get('oracle'), r.get('message'))
for l in r['trace'][-${TAIL:-60}:]: print(l)
"
