#!/bin/bash
# dev helper: build + run one worker batch: run1.sh PROP COUNT [SEED]
export GOFLAGS=-mod=mod GOPROXY=off GOSUMDB=off GOTOOLCHAIN=local
cd /verif/sim && go1.26.8 test -c -tags "verif stdjson gjson" -o /verif/bin/sim.dev.test ./worker || exit 2
cd /verif/.scratch && VSIM_MODE=explore VSIM_PROP=$1 VSIM_SEED=${3:-1} VSIM_COUNT=$2 VSIM_OUT=/verif/.scratch/r.json /verif/bin/sim.dev.test -test.run '^TestSim$' -test.timeout 0 || exit $?
python3 -c "
import json
r=json.load(open('/verif/.scratch/r.json'))
for k in ['episodes','nontrivial','steps','sim_time_ns','faults','probes','infra','wall_s','leak']: print(k, r[k])
print('sigs',len(r['sigs']))
for v in (r.get('violations') or []): print(v['oracle'], v['message'][:${MSGLEN:-700}], len(v['tape']), 'idx', v['episode_index'])
"
