#!/bin/bash
# dev helper: build + run one worker batch: run1.sh PROP COUNT [SEED]   (REPO=/scratch/copy to build against a patched copy)
export GOFLAGS=-mod=mod GOPROXY=off GOSUMDB=off GOTOOLCHAIN=local
BIN=/verif/bin/sim.dev${REPO:+.$(basename $REPO)}.test
MODARG=
if [ -n "$REPO" ]; then
  ALT=/verif/.scratch/go.dev.$(basename $REPO).mod
  sed "s#=> /repo#=> $REPO#" /verif/sim/go.mod > $ALT; cp $REPO/go.sum ${ALT%.mod}.sum; MODARG="-modfile=$ALT"
fi
if [ -z "$NOBUILD" ]; then cd /verif/sim && go1.26.8 test -c $MODARG -tags "verif stdjson gjson" -o $BIN ./worker || exit 2; fi
OUT=/verif/.scratch/r${RTAG}.json
cd /verif/.scratch && VSIM_MODE=explore VSIM_PROP=$1 VSIM_SEED=${3:-1} VSIM_COUNT=$2 VSIM_OUT=$OUT $BIN -test.run '^TestSim$' -test.timeout 0 || exit $?
python3 -c "
import json
r=json.load(open('$OUT'))
for k in ['episodes','nontrivial','steps','sim_time_ns','faults','probes','infra','wall_s','leak']: print(k, r[k])
print('sigs',len(r['sigs']))
for v in (r.get('violations') or []): print(v['oracle'], v['message'][:${MSGLEN:-700}], len(v['tape']), 'idx', v['episode_index'])
"
